import DC.Prelude.Utf8B

/-! Facts about `utf8.DecodeRune` / `utf8.FullRune` needed by the `bufio` refinement: once `FullRune p` holds (or
`len p ≥ UTFMax`), bytes appended after `p` do not change what `DecodeRune` returns; the size is 1..4 and never
exceeds the input. -/
namespace DC.Utf8B

theorem first_vals (b : UInt8) :
    first b = 0xF0 ∨ first b = 0xF1 ∨ first b = 0x02 ∨ first b = 0x13 ∨ first b = 0x03 ∨ first b = 0x23 ∨
    first b = 0x34 ∨ first b = 0x04 ∨ first b = 0x44 := by
  unfold first
  simp only []
  repeat' split
  all_goals simp

theorem first_sz (b : UInt8) (h : first b < 0xF0) : 2 ≤ first b % 8 ∧ first b % 8 ≤ 4 := by
  rcases first_vals b with h1 | h1 | h1 | h1 | h1 | h1 | h1 | h1 | h1 <;> omega

theorem first_ascii (b : UInt8) (h : b.toNat < 0x80) : first b = 0xF0 := by
  unfold first
  simp [h]

/-- bytes after a full rune do not matter -/
theorem decodeRune_append_of_full (p q : Bytes) (h : fullRune p = true) : decodeRune (p ++ q) = decodeRune p := by
  rcases p with _ | ⟨a, _ | ⟨b, _ | ⟨c, _ | ⟨d, t⟩⟩⟩⟩
  · simp [fullRune] at h
  · have hs := first_sz a
    simp only [fullRune, decodeRune, List.cons_append, List.nil_append, List.length_nil] at h ⊢
    by_cases hx : first a ≥ 0xF0
    · simp [hx]
    · have := hs (by omega)
      simp at h
      omega
  · have hs := first_sz a
    simp only [fullRune, decodeRune, List.cons_append, List.nil_append, List.length_cons, List.length_nil] at h ⊢
    by_cases hx : first a ≥ 0xF0
    · simp [hx]
    · have := hs (by omega)
      simp only [hx, if_false]
      by_cases ho : outside b (acceptLo (first a / 16)) (acceptHi (first a / 16)) = true
      · simp [ho]
      · simp [ho] at h ⊢
        have h2 : first a % 8 = 2 := by omega
        simp [h2]
  · have hs := first_sz a
    simp only [fullRune, decodeRune, List.cons_append, List.nil_append, List.length_cons, List.length_nil] at h ⊢
    by_cases hx : first a ≥ 0xF0
    · simp [hx]
    · have := hs (by omega)
      simp only [hx, if_false]
      by_cases ho : outside b (acceptLo (first a / 16)) (acceptHi (first a / 16)) = true
      · simp [ho]
      · by_cases hc : notCont c = true
        · simp [ho, hc]
          repeat' split
          all_goals first | rfl | omega
        · simp [ho, hc] at h ⊢
          repeat' split
          all_goals first | rfl | omega
  · have hs := first_sz a
    simp only [decodeRune, List.cons_append, List.length_cons, List.length_append]
    by_cases hx : first a ≥ 0xF0
    · simp [hx]
    · have := hs (by omega)
      simp only [hx, if_false]
      have h1 : ¬ (t.length + q.length + 1 + 1 + 1 + 1 < first a % 8) := by omega
      have h2 : ¬ (t.length + 1 + 1 + 1 + 1 < first a % 8) := by omega
      simp [h1, h2]

/-- `UTFMax` bytes are always a full rune -/
theorem fullRune_of_length (p : Bytes) (h : utfMax ≤ p.length) : fullRune p = true := by
  rcases p with _ | ⟨a, t⟩
  · simp [utfMax] at h
  · have : first a % 8 ≤ 4 := by
      rcases first_vals a with h1 | h1 | h1 | h1 | h1 | h1 | h1 | h1 | h1 <;> omega
    simp only [utfMax, List.length_cons] at h
    simp only [fullRune]
    rw [if_pos (by omega)]

theorem decodeRune_append_of_length (p q : Bytes) (h : utfMax ≤ p.length) : decodeRune (p ++ q) = decodeRune p :=
  decodeRune_append_of_full p q (fullRune_of_length p h)

/-- the ASCII fast path of `bufio.ReadRune` (bufio.go:314) agrees with `DecodeRune` -/
theorem decodeRune_ascii (c : UInt8) (t : Bytes) (h : c.toNat < 0x80) : decodeRune (c :: t) = (c.toNat, 1) := by
  simp [decodeRune, first_ascii c h]

/-- `DecodeRune` of a non-empty slice consumes between 1 byte and the whole slice -/
theorem decodeRune_size (p : Bytes) (h : p ≠ []) : 1 ≤ (decodeRune p).2 ∧ (decodeRune p).2 ≤ p.length := by
  rcases p with _ | ⟨a, t⟩
  · exact absurd rfl h
  · have hs := first_sz a
    unfold decodeRune
    simp only [List.length_cons]
    repeat' split
    all_goals simp_all
    all_goals omega

end DC.Utf8B
