import DC.Proofs.LexerLayoutEnds2

/-!
# Look-ahead locality: a STOP RUNE ends the token before it (C05, directly adjacent tokens)

`LexerLayoutEnds.lean` / `LexerLayoutEnds2.lean` prove, per scanner, "a white-space rune after the token's text ends the
token, and nothing after that rune is looked at". Here the follower is generalised from "a white-space rune" to "any
rune of the scanner's stop class": every lemma `X_ends_at_stop` has the shape

  `Ent s (text ++ tail)` → `stop_X (firstRune tail)` → `(nextToken s).1.kvq = …` ∧ `Ent (nextToken s).2 tail`

where `tail : Bytes` is ARBITRARY (any bytes, valid UTF-8 or not, also empty = EOF) and only its first rune
`f = firstRune tail` (`0` at EOF) is constrained. So the token and the state after it depend on nothing but the first
rune after the token: the look-ahead of every scanner covered here is at most ONE rune beyond the token (zero for the
closed tokens `{…}`, `‘…’`, `“…”` and the two-character operators), and all the places where the lexer really looks
further — `.` + digits (32-byte window), `1.` + rune, `1_` + digit, `1e` + sign/digit, `<=` + `>`, `$tag$` (4096-byte
window) — are outside the stop classes.

`peekChar` decodes ONE byte (lexer.go:85-95), so a non-ASCII follower peeks as U+FFFD: `peekOf f`.
-/
namespace DC.Lexer
open DC.Utf8 DC.Gen.Tokens DC.Gen.Unicode

/-! ## 0. the follower as `peekChar` sees it -/

/-- what `peekChar` answers when the next rune is `f` (`0` = nothing left). -/
def peekOf (f : Nat) : Nat := if f < 128 then f else runeError

theorem firstRune_cons (b : UInt8) (t : Bytes) : firstRune (b :: t) = (decodeRune (b :: t)).1 := rfl

theorem peekChar_tail {s : LState} {p t : Bytes} {c : Nat} (hs : Ent s (p ++ t)) (hd : Dec p c) :
    peekChar s = peekOf (firstRune t) := by
  obtain ⟨_, he, hrest⟩ := hs.dec hd
  unfold peekChar peekOf
  rw [he, hrest]
  cases t with
  | nil => simp [firstRune_nil]
  | cons b t' =>
    simp only [Bool.false_eq_true, if_false]
    rw [firstRune_cons]
    by_cases hb : b.toNat < 128
    · rw [decodeRune_ascii b [] hb, decodeRune_ascii b t' hb, if_pos hb]
    · have := decodeRune_ge b t' (by omega)
      rw [decodeRune_single b (by omega), if_neg (by omega)]

theorem peekOf_eq_iff (f c : Nat) (hc : c < 128) : peekOf f = c ↔ f = c := by
  unfold peekOf runeError
  split <;> constructor <;> intro h <;> omega

theorem peekOf_ascii {f : Nat} (h : f < 128) : peekOf f = f := by unfold peekOf; rw [if_pos h]

theorem isDigit_peekOf {f : Nat} (h : isDigit f = false) : isDigit (peekOf f) = false := by
  unfold peekOf; split
  · exact h
  · exact runeError_inert.1

theorem isLetter_peekOf {f : Nat} (h : isLetter f = false) : isLetter (peekOf f) = false := by
  unfold peekOf; split
  · exact h
  · exact runeError_inert.2.1

theorem isIdentStart_peekOf {f : Nat} (h : isIdentStart f = false) : isIdentStart (peekOf f) = false := by
  unfold peekOf; split
  · exact h
  · exact runeError_inert.2.2

theorem identChar_parts {f : Nat} (h : isIdentChar f = false) :
    f ≠ 95 ∧ f ≠ 36 ∧ isLetter f = false ∧ isDigit f = false ∧ isIdentStart f = false := by
  unfold isIdentChar at h
  unfold isIdentStart
  simp only [Bool.or_eq_false_iff, decide_eq_false_iff_not] at h ⊢
  exact ⟨h.1.1.1, h.1.1.2, h.1.2, h.2, h.1.1.1, h.1.2⟩

/-- `utf8.DecodeRune` looks at no more than four bytes. -/
theorem decodeRune_take (l : Bytes) (k : Nat) (hk : 4 ≤ k) : decodeRune (l.take k) = decodeRune l := by
  obtain ⟨j, rfl⟩ : ∃ j, k = j + 4 := ⟨k - 4, by omega⟩
  rcases l with _ | ⟨a, _ | ⟨b, _ | ⟨c, _ | ⟨d, t⟩⟩⟩⟩ <;> simp [decodeRune]

theorem firstRune_take (l : Bytes) (k : Nat) (hk : 4 ≤ k) : firstRune (l.take k) = firstRune l := by
  cases l with
  | nil => simp
  | cons b t =>
    obtain ⟨j, rfl⟩ : ∃ j, k = j + 1 := ⟨k - 1, by omega⟩
    rw [List.take_succ_cons, firstRune_cons, firstRune_cons, ← List.take_succ_cons, decodeRune_take _ _ hk]

/-! ## 1. identifiers and keywords -/

/-- is the identifier one of the single letters `x X b B` (then a `'` after it starts a hex / binary string)? -/
def isXB (r0 : Nat) (rs : List Nat) : Bool := rs.isEmpty && (r0 == 120 || r0 == 88 || r0 == 98 || r0 == 66)

/-- an identifier followed by any rune that is not an identifier character (and, after a lone `x X b B`, not `'`):
the token is that identifier and the lexer stands on the follower; the follower's successors were not looked at. -/
theorem ident_ends_at_stop {body : Bytes} {r0 : Nat} {rs : List Nat} (hb : Spells body (r0 :: rs))
    (h0 : isIdentStart r0 = true) (hall : ∀ r ∈ r0 :: rs, isIdentChar r = true)
    (tail : Bytes) (hstop : isIdentChar (firstRune tail) = false) (hq : isXB r0 rs = true → firstRune tail ≠ 39)
    {s : LState} (hs : Ent s (body ++ tail)) :
    (nextToken s).1.kvq = (lookupIdent (enc (r0 :: rs)), enc (r0 :: rs), false) ∧ Ent (nextToken s).2 tail := by
  obtain ⟨p, bs, rfl, hd, hb1⟩ := hb.cons_inv
  have hs' : Ent s (p ++ (bs ++ tail)) := by rw [← List.append_assoc]; exact hs
  obtain ⟨hch, he, _⟩ := hs'.dec hd
  obtain ⟨ha, hst⟩ := scanWhile_run identCharCond identCharCond_ok isIdentChar identCharCond_live
    (Spells.cons hd hb1) hall hstop [] hs
  have hpk : ¬ ((s.ch = 120 ∨ s.ch = 88 ∨ s.ch = 98 ∨ s.ch = 66) ∧ peekChar s = 39) := by
    rw [hch, hs'.peek hd 39 (by decide)]
    cases hb1 with
    | nil =>
      rw [List.nil_append]
      intro ⟨h1, h2⟩
      refine hq ?_ h2
      unfold isXB
      rcases h1 with h | h | h | h <;> simp [h]
    | @cons p1 r1 bs1 rs1 hd1 _ =>
      rw [List.append_assoc, firstRune_dec hd1]
      intro ⟨_, e⟩
      have := hall r1 (List.mem_cons_of_mem _ (List.mem_cons_self ..))
      rw [e] at this; revert this; decide
  have : nextTokenE s = .ok (tokAt s (lookupIdent (scanWhile identCharCond identCharCond_ok s []).2.reverse)
      (scanWhile identCharCond identCharCond_ok s []).2.reverse, (scanWhile identCharCond identCharCond_ok s []).1) := by
    rw [nextTokenE_identStart' he (by rw [hch]; exact h0)]
    unfold readIdentifier
    rw [if_neg (fun h => hpk ⟨h.1.elim Or.inl (fun x => Or.inr (Or.inl x)), h.2⟩),
      if_neg (fun h => hpk ⟨h.1.elim (fun x => Or.inr (Or.inr (Or.inl x))) (fun x => Or.inr (Or.inr (Or.inr x))), h.2⟩)]
  rw [nextToken_of_E this]
  simp only [kvq_tokAt, ha, List.append_nil, List.reverse_reverse]
  exact ⟨trivial, hst⟩

/-! ## 2. operators and punctuation -/

/-- the stop class of an operator spelling `sp`: the followers that neither extend it (`->`, `==`, `!=`, `<=`, `<>`,
`>=`, `||`, `::`, `<=>`), nor turn it into a comment opener (`--`, `/*`), nor — for `.` — into a number (`.5`). Every
other spelling of `opTable` (`+ * % ( ) [ ] } , ; ? ^`, the two-character operators but `<=`, and `<=>`) looks at
nothing after itself. -/
def opStop (sp : Bytes) (f : Nat) : Bool :=
  if sp = [47] then f != 42
  else if sp = [45] then f != 45 && f != 62
  else if sp = [61] then f != 61
  else if sp = [33] then f != 61
  else if sp = [60] then f != 61 && f != 62
  else if sp = [62] then f != 61
  else if sp = [124] then f != 124
  else if sp = [58] then f != 58
  else if sp = [46] then !isDigit (peekOf f)
  else if sp = [60, 61] then f != 62
  else true

/-- the facts about a state that stands on ASCII `c0` with `tail` next. -/
theorem next_facts {s : LState} {c0 : UInt8} (h0 : c0.toNat < 128) (tail : Bytes) (hs : Ent s (c0 :: tail)) :
    s.ch = c0.toNat ∧ s.eof = false ∧ (readChar s).ch = firstRune tail ∧ Ent (readChar s) tail ∧
      peekChar s = peekOf (firstRune tail) := by
  have hs' : Ent s ([c0] ++ tail) := hs
  obtain ⟨hch, he, _⟩ := hs'.dec (dec_ascii h0)
  have h1 := hs'.readChar (dec_ascii h0)
  exact ⟨hch, he, h1.ch, h1, peekChar_tail hs' (dec_ascii h0)⟩

theorem peekOf_eq (f c : Nat) (hc : c < 128) : (peekOf f = c) = (f = c) := propext (peekOf_eq_iff f c hc)

/-- one-byte entries. -/
theorem op1_ends_at_stop (c0 : UInt8) (k : Nat) (hmem : ([c0], k) ∈ opTable) (tail : Bytes)
    (hstop : opStop [c0] (firstRune tail) = true) {s : LState} (hs : Ent s ([c0] ++ tail)) :
    (nextToken s).1.kvq = (k, [c0], false) ∧ Ent (nextToken s).2 tail := by
  have h0 : c0.toNat < 128 := by
    simp only [opTable, List.mem_cons, Prod.mk.injEq, List.cons.injEq, List.mem_nil_iff, and_true, or_false] at hmem
    rcases hmem with h | h | h | h | h | h | h | h | h | h | h | h | h | h | h | h | h | h | h | h | h | h | h | h | h | h | h | h | h | h
    all_goals first
      | (rw [h.1]; decide)
      | (exact absurd h.1 (by simp))
      | (exact absurd h.1.2 (by simp))
  obtain ⟨hch, he, hc1, h1, hpk⟩ := next_facts h0 tail hs
  have hE : nextTokenE s = .ok (tokAt s k [c0], readChar s) := by
    simp only [opTable, List.mem_cons, Prod.mk.injEq, List.cons.injEq, List.mem_nil_iff, and_true, or_false] at hmem
    rcases hmem with h | h | h | h | h | h | h | h | h | h | h | h | h | h | h | h | h | h | h | h | h | h | h | h | h | h | h | h | h | h
    all_goals first
      | (obtain ⟨rfl, rfl⟩ := h
         rw [nextTokenE_live (by rw [hch]; decide) he (by rw [hch]; decide)]
         try simp [opStop] at hstop
         simp [*, nextTokenSwitch, singleCharKind, readOperator, readDot, encodeRune, peekOf_eq]
         try (rw [if_neg (by omega)]))
      | (exact absurd h.1 (by simp))
      | (exact absurd h.1.2 (by simp))
  rw [nextToken_of_E hE]
  exact ⟨rfl, h1⟩

/-- two-byte entries: only `<=` looks at its follower (`<=>`). -/
theorem op2_ends_at_stop (c0 c1 : UInt8) (k : Nat) (hmem : ([c0, c1], k) ∈ opTable) (tail : Bytes)
    (hstop : opStop [c0, c1] (firstRune tail) = true) {s : LState} (hs : Ent s ([c0, c1] ++ tail)) :
    (nextToken s).1.kvq = (k, [c0, c1], false) ∧ Ent (nextToken s).2 tail := by
  have h01 : c0.toNat < 128 ∧ c1.toNat < 128 := by
    simp only [opTable, List.mem_cons, Prod.mk.injEq, List.cons.injEq, List.mem_nil_iff, and_true, or_false] at hmem
    rcases hmem with h | h | h | h | h | h | h | h | h | h | h | h | h | h | h | h | h | h | h | h | h | h | h | h | h | h | h | h | h | h
    all_goals first
      | (rw [h.1.1, h.1.2]; decide)
      | (exact absurd h.1.2 (by simp))
      | (exact absurd h.1.2.2 (by simp))
  have hs' : Ent s ([c0] ++ (c1 :: tail)) := hs
  obtain ⟨hch, he, _⟩ := hs'.dec (dec_ascii h01.1)
  have hpk : peekChar s = c1.toNat :=
    (hs'.peek (dec_ascii h01.1) c1.toNat h01.2).2 (firstRune_cons_ascii c1 _ h01.2)
  have hs1 : Ent (readChar s) (c1 :: tail) := hs'.readChar (dec_ascii h01.1)
  obtain ⟨hch1, he1, hc2, h2, _⟩ := next_facts h01.2 tail hs1
  have hE : nextTokenE s = .ok (tokAt s k [c0, c1], readChar (readChar s)) := by
    simp only [opTable, List.mem_cons, Prod.mk.injEq, List.cons.injEq, List.mem_nil_iff, and_true, or_false] at hmem
    rcases hmem with h | h | h | h | h | h | h | h | h | h | h | h | h | h | h | h | h | h | h | h | h | h | h | h | h | h | h | h | h | h
    all_goals first
      | (obtain ⟨⟨rfl, rfl⟩, rfl⟩ := h
         rw [nextTokenE_live (by rw [hch]; decide) he (by rw [hch]; decide)]
         try simp [opStop] at hstop
         simp [*, nextTokenSwitch, singleCharKind, readOperator]
         try (rw [if_neg (by omega)]))
      | (exact absurd h.1.2 (by simp))
      | (exact absurd h.1.2.2 (by simp))
  rw [nextToken_of_E hE]
  exact ⟨rfl, h2⟩

/-- `<=>`: whatever follows. -/
theorem op3_ends_at_stop (tail : Bytes) {s : LState} (hs : Ent s ([60, 61, 62] ++ tail)) :
    (nextToken s).1.kvq = (tNULL_SAFE_EQ, [60, 61, 62], false) ∧ Ent (nextToken s).2 tail := by
  have d60 : Dec [60] 60 := dec_ascii (b := 60) (by decide)
  have d61 : Dec [61] 61 := dec_ascii (b := 61) (by decide)
  have hs' : Ent s ([60] ++ (61 :: 62 :: tail)) := hs
  obtain ⟨hch, he, _⟩ := hs'.dec d60
  have hpk : peekChar s = 61 := (hs'.peek d60 61 (by decide)).2 (firstRune_cons_ascii 61 _ (by decide))
  have hs1 : Ent (readChar s) ([61] ++ (62 :: tail)) := hs'.readChar d60
  have hs2 : Ent (readChar (readChar s)) (62 :: tail) := hs1.readChar d61
  obtain ⟨hch2, _, _, h3, _⟩ := next_facts (c0 := 62) (by decide) tail hs2
  have hE : nextTokenE s = .ok (tokAt s tNULL_SAFE_EQ [60, 61, 62], readChar (readChar (readChar s))) := by
    rw [nextTokenE_live (by rw [hch]; decide) he (by rw [hch]; decide)]
    simp [hch, hch2, hpk, nextTokenSwitch, singleCharKind, readOperator]
  rw [nextToken_of_E hE]
  exact ⟨rfl, h3⟩

/-- every operator / punctuation token of `opTable` followed by a rune of its stop class. -/
theorem op_ends_at_stop (e : Bytes × Nat) (hmem : e ∈ opTable) (tail : Bytes)
    (hstop : opStop e.1 (firstRune tail) = true) {s : LState} (hs : Ent s (e.1 ++ tail)) :
    (nextToken s).1.kvq = (e.2, e.1, false) ∧ Ent (nextToken s).2 tail := by
  obtain ⟨op, k⟩ := e
  match op, hmem, hstop, hs with
  | [c0], hmem, hstop, hs => exact op1_ends_at_stop c0 k hmem tail hstop hs
  | [c0, c1], hmem, hstop, hs => exact op2_ends_at_stop c0 c1 k hmem tail hstop hs
  | [], hmem, _, _ => simp [opTable] at hmem
  | c0 :: c1 :: c2 :: t, hmem, _, hs =>
    have : c0 = 60 ∧ c1 = 61 ∧ c2 = 62 ∧ t = [] ∧ k = tNULL_SAFE_EQ := by
      simp only [opTable, List.mem_cons, Prod.mk.injEq, List.cons.injEq, List.mem_nil_iff, or_false] at hmem
      simp at hmem
      exact ⟨hmem.1.1, hmem.1.2.1, hmem.1.2.2.1, hmem.1.2.2.2, hmem.2⟩
    obtain ⟨rfl, rfl, rfl, rfl, rfl⟩ := this
    exact op3_ends_at_stop tail hs

/-! ## 3. `@`, `@@`, `@@name` -/

/-- a lone `@` followed by anything but `@`. -/
theorem at_ends_at_stop (tail : Bytes) (hstop : firstRune tail ≠ 64) {s : LState} (hs : Ent s ([64] ++ tail)) :
    (nextToken s).1.kvq = (tIDENT, [64], false) ∧ Ent (nextToken s).2 tail := by
  obtain ⟨hch, he, _⟩ := hs.dec dec64
  have hpk : ¬ peekChar s = 64 := by rw [hs.peek dec64 64 (by decide)]; exact hstop
  rw [nextToken_of_E (nextTokenE_at he hch)]
  unfold readAt
  rw [if_neg hpk]
  exact ⟨rfl, hs.readChar dec64⟩

/-- `@@` followed by a rune that starts no name (no identifier start, no digit). -/
theorem atat_ends_at_stop (tail : Bytes) (h1 : isIdentStart (firstRune tail) = false)
    (h2 : isDigit (firstRune tail) = false) {s : LState} (hs : Ent s ([64, 64] ++ tail)) :
    (nextToken s).1.kvq = (tIDENT, [64, 64], false) ∧ Ent (nextToken s).2 tail := by
  have hs' : Ent s ([64] ++ ([64] ++ tail)) := hs
  obtain ⟨hch, he, _⟩ := hs'.dec dec64
  have hpk : peekChar s = 64 := (hs'.peek dec64 64 (by decide)).2 (firstRune_dec dec64 _)
  have hs2 : Ent (readChar (readChar s)) tail := (hs'.readChar dec64).readChar dec64
  rw [nextToken_of_E (nextTokenE_at he hch)]
  unfold readAt
  rw [if_pos hpk]
  simp only []
  rw [if_neg (by rw [hs2.ch, h1, h2]; decide)]
  exact ⟨rfl, hs2⟩

/-- `@@name` followed by a rune that is not an identifier character. -/
theorem atname_ends_at_stop {body : Bytes} {r0 : Nat} {rs : List Nat} (hb : Spells body (r0 :: rs))
    (h0 : (isIdentStart r0 || isDigit r0) = true) (hall : ∀ x ∈ r0 :: rs, isIdentChar x = true)
    (tail : Bytes) (hstop : isIdentChar (firstRune tail) = false)
    {s : LState} (hs : Ent s ((64 :: 64 :: body) ++ tail)) :
    (nextToken s).1.kvq = (tIDENT, 64 :: 64 :: enc (r0 :: rs), false) ∧ Ent (nextToken s).2 tail := by
  have hs' : Ent s ([64] ++ ([64] ++ (body ++ tail))) := by simpa using hs
  obtain ⟨hch, he, _⟩ := hs'.dec dec64
  have hpk : peekChar s = 64 := (hs'.peek dec64 64 (by decide)).2 (firstRune_dec dec64 _)
  have hs2 : Ent (readChar (readChar s)) (body ++ tail) := (hs'.readChar dec64).readChar dec64
  obtain ⟨p, bs, rfl, hd, hb1⟩ := hb.cons_inv
  have hc2 : (readChar (readChar s)).ch = r0 := by
    have : Ent (readChar (readChar s)) (p ++ (bs ++ tail)) := by rw [← List.append_assoc]; exact hs2
    exact (this.dec hd).1
  obtain ⟨ha, hst⟩ := scanWhile_run identCharCond identCharCond_ok isIdentChar identCharCond_live
    (Spells.cons hd hb1) hall hstop [64, 64] hs2
  rw [nextToken_of_E (nextTokenE_at he hch)]
  unfold readAt
  rw [if_pos hpk]
  simp only []
  rw [if_pos (by rw [hc2]; exact h0)]
  simp only [kvq_tokAt, ha]
  exact ⟨by simp, hst⟩

/-! ## 4. decimal numbers through `readNumberOrIdent` -/

/-- `baseTail` does nothing unless the buffer is `"0"` and the current character one of `x X b B`. -/
theorem baseTail_id {x : LState × Bytes}
    (h : x.2.length ≠ 1 ∨ (x.1.ch ≠ 120 ∧ x.1.ch ≠ 88 ∧ x.1.ch ≠ 98 ∧ x.1.ch ≠ 66)) : baseTail x = x := by
  have hz : (x.2 == [48]) = true → x.2.length = 1 := by
    intro e; rw [beq_iff_eq] at e; rw [e]; rfl
  unfold baseTail
  simp only []
  rw [if_neg (by
      intro hc
      rcases h with h | h
      · exact h (hz hc.1)
      · have := hc.2; omega),
    if_neg (by
      intro hc
      rcases h with h | h
      · exact h (hz hc.1)
      · have := hc.2.1; omega)]

/-- `octTail` does nothing unless the buffer has length 1 and the current character is `o`/`O`. -/
theorem octTail_id (c : Nat) {x : LState × Bytes}
    (h : x.2.length ≠ 1 ∨ (x.1.ch ≠ 111 ∧ x.1.ch ≠ 79)) : octTail c x = x := by
  unfold octTail
  split
  · rename_i hc
    rcases h with h | h
    · exfalso
      have a := (lenGe_iff _ _).1 hc.2.1
      have b : ¬ 2 ≤ x.2.length := by
        intro hh
        have := (lenGe_iff _ 2).2 hh
        rw [this] at hc
        exact absurd hc.2.2 (by decide)
      omega
    · rw [if_neg (by omega)]
  · rfl

/-- the part of a decimal number the lexer reads last. -/
inductive NumEnd where
  | int   -- `D+`
  | grp   -- `D+(_D+)+`
  | dot   -- `….`
  | frac  -- `….D+(_D+)*`
  | exp   -- `…(e|E)[+-]D+(_D+)*`
deriving DecidableEq, Repr

/-- the stop class of a decimal number, by its last part. `int`: a digit or `_` would continue the digits, a letter
makes it an identifier / exponent / base prefix, `.` a fraction. `grp`: digit, `_`, `.`, `e`/`E`. `dot` (`1.`): a digit
continues; an identifier start or a second `.` AS SEEN BY `peekChar` makes the lexer give the dot back (`1.a`, `1..2`;
but `1.é` keeps it, `é` peeks as U+FFFD). `frac`: digit, `_`, `e`/`E`. `exp`: digit, `_`. -/
def numStop : NumEnd → Nat → Bool
  | .int, f => !isDigit f && !isLetter f && f != 95 && f != 46
  | .grp, f => !isDigit f && f != 95 && f != 46 && f != 101 && f != 69
  | .dot, f => !isDigit f && !isIdentStart (peekOf f) && f != 46
  | .frac, f => !isDigit f && f != 95 && f != 101 && f != 69
  | .exp, f => !isDigit f && f != 95

/-- the shapes of `FracExp`, with the further digit groups `g`, tagged by the last part. -/
inductive NumShape : Bytes → Bytes → Bytes → NumEnd → Prop
  | int : NumShape [] [] [] .int
  | grp {g : Bytes} : g ≠ [] → NumShape g [] [] .grp
  | dot {g : Bytes} : NumShape g [46] [46] .dot
  | frac {g t v : Bytes} : DigUs t v → NumShape g (46 :: t) (46 :: v) .frac
  | exp {g e ev : Bytes} : Exp e ev → NumShape g e ev .exp
  | fracExp {g t v e ev : Bytes} : DigUs t v → Exp e ev → NumShape g (46 :: t ++ e) (46 :: v ++ ev) .exp

theorem NumShape.fracExp' {g fe fv : Bytes} {k : NumEnd} (h : NumShape g fe fv k) : FracExp fe fv := by
  cases h with
  | int => exact FracExp.none
  | grp _ => exact FracExp.none
  | dot => exact FracExp.dot
  | frac ht => exact FracExp.frac ht
  | exp he => exact FracExp.exp he
  | fracExp ht he => exact FracExp.fracExp ht he

theorem letter_ne {f c : Nat} (h : isLetter f = false) (hc : isLetter c = true) : f ≠ c := by
  intro e; rw [e, hc] at h; cases h

theorem identStart_peek_ne {f c : Nat} (h : isIdentStart (peekOf f) = false) (hc : c < 128)
    (hi : isIdentStart c = true) : f ≠ c := by
  intro e; rw [e, peekOf_ascii hc, hi] at h; cases h

/-- the first rune after the integer digits (and groups) is never a digit and never `_`. -/
theorem NumShape.stop {g fe fv : Bytes} {k : NumEnd} (h : NumShape g fe fv k) (tail : Bytes)
    (hstop : numStop k (firstRune tail) = true) : Stop (fe ++ tail) := by
  cases h with
  | int =>
    simp only [numStop, Bool.and_eq_true, Bool.not_eq_true', bne_iff_ne, ne_eq] at hstop
    exact ⟨hstop.1.1.1, hstop.1.2⟩
  | grp _ =>
    simp only [numStop, Bool.and_eq_true, Bool.not_eq_true', bne_iff_ne, ne_eq] at hstop
    exact ⟨hstop.1.1.1.1, hstop.1.1.1.2⟩
  | dot => exact stop_ascii (b := 46) (by decide) (by decide) (by decide) _
  | frac _ => exact stop_ascii (b := 46) (by decide) (by decide) (by decide) _
  | exp he => exact he.stop _
  | fracExp _ _ => exact stop_ascii (b := 46) (by decide) (by decide) (by decide) _

/-- a trailing `.` in front of a rune that `peekChar` does not see as a digit, an identifier start or `.`: the dot
is part of the number. -/
theorem fracPart_dot_stop (tail : Bytes) (h1 : isDigit (firstRune tail) = false)
    (h2 : isIdentStart (peekOf (firstRune tail)) = false) (h3 : firstRune tail ≠ 46)
    {x : LState × Bytes} {acc : Bytes} (hx : At x (46 :: tail) acc) :
    At (fracPart x) tail (46 :: acc) := by
  have hch : x.1.ch = 46 := hx.ch_ascii (b := 46) (by decide)
  have he' : Ent x.1 ([46] ++ tail) := hx.1
  have hpk := peekChar_tail he' dec46
  have h1t := takeChar_at (b := 46) (by decide) hx
  have hd : (digitsUs (takeChar x).1 (takeChar x).2) = takeChar x := by
    rw [digitsUs.eq_1, dif_neg (by rw [h1t.1.ch, h1]; decide)]
  unfold fracPart
  rw [if_pos hch]
  simp only []
  rw [if_pos (by
    rw [hpk, isDigit_peekOf h1, h2]
    have : peekOf (firstRune tail) ≠ 46 := fun e => h3 ((peekOf_eq_iff _ 46 (by decide)).1 e)
    simp [this])]
  rw [hd]
  exact h1t

theorem fracExp_at_stop {g fe fv : Bytes} {k : NumEnd} (h : NumShape g fe fv k) (tail : Bytes)
    (hstop : numStop k (firstRune tail) = true) {x : LState × Bytes} {acc : Bytes} (hx : At x (fe ++ tail) acc) :
    At (expPart (fracPart x)) tail (fv.reverse ++ acc) := by
  have hst0 := h.stop tail hstop
  cases h with
  | int =>
    simp only [numStop, Bool.and_eq_true, Bool.not_eq_true', bne_iff_ne, ne_eq] at hstop
    have hx' : At x tail acc := hx
    have hch := hx'.1.ch
    have hl := hstop.1.1.2
    rw [fracPart_none (by rw [hch]; exact hstop.2),
      expPart_none (by rw [hch]; exact letter_ne hl (by decide)) (by rw [hch]; exact letter_ne hl (by decide))]
    exact hx'
  | grp _ =>
    simp only [numStop, Bool.and_eq_true, Bool.not_eq_true', bne_iff_ne, ne_eq] at hstop
    have hx' : At x tail acc := hx
    have hch := hx'.1.ch
    rw [fracPart_none (by rw [hch]; exact hstop.1.1.2),
      expPart_none (by rw [hch]; exact hstop.1.2) (by rw [hch]; exact hstop.2)]
    exact hx'
  | dot =>
    simp only [numStop, Bool.and_eq_true, Bool.not_eq_true', bne_iff_ne, ne_eq] at hstop
    have h1 := fracPart_dot_stop tail hstop.1.1 hstop.1.2 hstop.2 (x := x) (acc := acc) hx
    have hch := h1.1.ch
    rw [expPart_none (by rw [hch]; exact identStart_peek_ne hstop.1.2 (by decide) (by decide))
      (by rw [hch]; exact identStart_peek_ne hstop.1.2 (by decide) (by decide))]
    exact h1
  | @frac _ t v ht =>
    simp only [numStop, Bool.and_eq_true, Bool.not_eq_true', bne_iff_ne, ne_eq] at hstop
    have hx' : At x (46 :: (t ++ tail)) acc := by simpa [At] using hx
    have h1 := fracPart_at ht ⟨hstop.1.1.1, hstop.1.1.2⟩ hx'
    have hch := h1.1.ch
    rw [expPart_none (by rw [hch]; exact hstop.1.2) (by rw [hch]; exact hstop.2)]
    refine ⟨h1.1, ?_⟩
    rw [h1.2]; simp
  | exp he =>
    simp only [numStop, Bool.and_eq_true, Bool.not_eq_true', bne_iff_ne, ne_eq] at hstop
    obtain ⟨c, t, rfl, hc⟩ := he.first
    have hx' : At x (c :: (t ++ tail)) acc := hx
    have hch := hx'.ch_ascii (by rcases hc with h | h <;> (rw [h]; decide))
    rw [fracPart_none (by rw [hch]; rcases hc with h | h <;> (rw [h]; decide))]
    exact expPart_at he ⟨hstop.1, hstop.2⟩ hx
  | @fracExp _ t v e ev ht he =>
    simp only [numStop, Bool.and_eq_true, Bool.not_eq_true', bne_iff_ne, ne_eq] at hstop
    have hx' : At x (46 :: (t ++ (e ++ tail))) acc := by simpa [At] using hx
    have h1 := fracPart_at ht (he.stop _) hx'
    have h2 := expPart_at he ⟨hstop.1, hstop.2⟩ h1
    refine ⟨h2.1, ?_⟩
    rw [h2.2]; simp

theorem UsGroups.len_pos {g gv : Bytes} (h : UsGroups g gv) (hne : g ≠ []) : 1 ≤ gv.length := by
  cases h with
  | nil => exact absurd rfl hne
  | @cons ds g' gv' hne' _ _ =>
    cases ds with
    | nil => exact absurd rfl hne'
    | cons d ds' => simp

/-- unless the number is a plain digit run, its value has at least two bytes. -/
theorem NumShape.len {g fe fv : Bytes} {k : NumEnd} (h : NumShape g fe fv k) {gv : Bytes} (hg : UsGroups g gv)
    (hk : k ≠ .int) : 1 ≤ gv.length + fv.length := by
  cases h with
  | int => exact absurd rfl hk
  | grp hne => have := hg.len_pos hne; omega
  | dot => simp
  | frac _ => simp; omega
  | exp he => obtain ⟨c, t, rfl, _⟩ := he.first; cases he; simp; omega
  | fracExp _ _ => simp; omega


/-- the buffer is longer than one byte, or the current character is none of the base-prefix letters. -/
def BaseInert (x : LState × Bytes) : Prop :=
  x.2.length ≠ 1 ∨ (x.1.ch ≠ 120 ∧ x.1.ch ≠ 88 ∧ x.1.ch ≠ 98 ∧ x.1.ch ≠ 66 ∧ x.1.ch ≠ 111 ∧ x.1.ch ≠ 79)

/-- decimal numbers `D+ (_D+)*` + nothing / `.` / `.D…` / exponent / both, followed by a rune of `numStop`: one
`NUMBER` whose value is the text without the `_`, and the lexer stands on the follower. -/
theorem dec_ends_at_stop {ds g gv fe fv : Bytes} {k : NumEnd} (hne : ds ≠ []) (hd : Digs ds) (hg : UsGroups g gv)
    (hf : NumShape g fe fv k) (tail : Bytes) (hstop : numStop k (firstRune tail) = true)
    {s : LState} (hs : Ent s ((ds ++ g ++ fe) ++ tail)) :
    (nextToken s).1.kvq = (tNUMBER, ds ++ gv ++ fv, false) ∧ Ent (nextToken s).2 tail := by
  have hs' : Ent s (ds ++ (g ++ (fe ++ tail))) := by simpa using hs
  have hst := hf.stop tail hstop
  -- the first digit run
  have hX := scanWhile_at digitCond digitCond_ok isDigit digitCond_live hd.lt hd.isDigit (hg.stop hst)
    (x := (s, [])) (acc := []) ⟨hs', rfl⟩
  rw [List.append_nil] at hX
  obtain ⟨d0, ds', rfl⟩ : ∃ d0 ds', ds = d0 :: ds' := by
    cases ds with
    | nil => exact absurd rfl hne
    | cons a b => exact ⟨a, b, rfl⟩
  have hd0 := hd.head
  have hs0 : Ent s ([d0] ++ (ds' ++ (g ++ (fe ++ tail)))) := hs'
  obtain ⟨hc0, he, _⟩ := hs0.dec (dec_ascii (by omega))
  rw [nextToken_of_E (nextTokenE_digit he (by rw [hc0]; exact hd0))]
  -- the number path
  have hpath : readNumberOrIdent s = numberTail s.ch s (scanWhile digitCond digitCond_ok s []) := by
    apply readNumberOrIdent_number
    · cases hg with
      | nil =>
        intro hh
        have hX' : At (scanWhile digitCond digitCond_ok s []) (fe ++ tail) (d0 :: ds').reverse := hX
        have := hst.2
        rw [← hX'.1.ch] at this
        exact this hh.1
      | @cons gs g' gv' hne' hd' _ =>
        obtain ⟨d, gs', rfl⟩ : ∃ d gs', gs = d :: gs' := by
          cases gs with
          | nil => exact absurd rfl hne'
          | cons a b => exact ⟨a, b, rfl⟩
        have hd1 := hd'.head
        have hX' : At (scanWhile digitCond digitCond_ok s []) (95 :: d :: (gs' ++ (g' ++ (fe ++ tail))))
          (d0 :: ds').reverse := by simpa [At] using hX
        have hpk := hX'.peek_ascii (b := 95) (c := d) (by decide) (by omega)
        intro hh
        rw [hpk] at hh
        rcases hh.2 with h | h
        · have := letter_digit_ascii d.toNat (by omega) h
          rw [(digit_facts _ (by omega) hd1).2.2] at this; cases this
        · omega
    · cases hg with
      | @cons gs g' gv' hne' hd' _ =>
        have hX' : At (scanWhile digitCond digitCond_ok s []) (95 :: (gs ++ (g' ++ (fe ++ tail))))
          (d0 :: ds').reverse := by simpa [At] using hX
        have hch : (scanWhile digitCond digitCond_ok s []).1.ch = 95 := hX'.ch_ascii (b := 95) (by decide)
        exact Or.inl (by rw [hch]; decide)
      | nil =>
        rw [List.nil_append] at hX
        cases hf with
        | int =>
          simp only [numStop, Bool.and_eq_true, Bool.not_eq_true', bne_iff_ne, ne_eq] at hstop
          have hX' : At (scanWhile digitCond digitCond_ok s []) tail (d0 :: ds').reverse := hX
          exact Or.inl (by rw [hX'.1.ch]; exact hstop.1.1.2)
        | grp hgne => exact absurd rfl hgne
        | dot =>
          have hch : (scanWhile digitCond digitCond_ok s []).1.ch = 46 := hX.ch_ascii (b := 46) (by decide)
          exact Or.inl (by rw [hch]; decide)
        | frac _ =>
          have hch : (scanWhile digitCond digitCond_ok s []).1.ch = 46 := hX.ch_ascii (b := 46) (by decide)
          exact Or.inl (by rw [hch]; decide)
        | fracExp _ _ =>
          have hch : (scanWhile digitCond digitCond_ok s []).1.ch = 46 := hX.ch_ascii (b := 46) (by decide)
          exact Or.inl (by rw [hch]; decide)
        | exp he =>
          cases he with
          | @mk c sg t v hc hsg ht =>
            obtain ⟨d, t', rfl, hdd⟩ := ht.first
            have hlt : c.toNat < 128 := by rcases hc with h | h <;> (rw [h]; decide)
            refine Or.inr (Or.inl ⟨?_, ?_⟩)
            · have hX' : At (scanWhile digitCond digitCond_ok s []) (c :: ((sg ++ d :: t') ++ tail))
                (d0 :: ds').reverse := hX
              rw [hX'.ch_ascii hlt]
              rcases hc with h | h <;> (rw [h]; decide)
            · cases hsg with
              | none =>
                have hX' : At (scanWhile digitCond digitCond_ok s []) (c :: d :: (t' ++ tail))
                  (d0 :: ds').reverse := hX
                rw [hX'.peek_ascii hlt (by omega)]
                exact Or.inl (digit_facts _ (by omega) hdd).2.2
              | plus =>
                have hX' : At (scanWhile digitCond digitCond_ok s []) (c :: 43 :: (d :: t' ++ tail))
                  (d0 :: ds').reverse := hX
                rw [hX'.peek_ascii hlt (by decide)]
                exact Or.inr (Or.inl rfl)
              | minus =>
                have hX' : At (scanWhile digitCond digitCond_ok s []) (c :: 45 :: (d :: t' ++ tail))
                  (d0 :: ds').reverse := hX
                rw [hX'.peek_ascii hlt (by decide)]
                exact Or.inr (Or.inr rfl)
  rw [hpath]
  -- the tail
  have h1 := usDigitGroups_at hg hst hX
  have h2 := fracExp_at_stop hf tail hstop h1
  have hch := h2.1.ch
  have hid : BaseInert (expPart (fracPart (usDigitGroups (scanWhile digitCond digitCond_ok s []).1
      (scanWhile digitCond digitCond_ok s []).2))) := by
    by_cases hk : k = .int
    · subst hk
      simp only [numStop, Bool.and_eq_true, Bool.not_eq_true', bne_iff_ne, ne_eq] at hstop
      have hl := hstop.1.1.2
      refine Or.inr ?_
      rw [hch]
      exact ⟨letter_ne hl (by decide), letter_ne hl (by decide), letter_ne hl (by decide), letter_ne hl (by decide),
        letter_ne hl (by decide), letter_ne hl (by decide)⟩
    · refine Or.inl ?_
      have := hf.len hg hk
      rw [h2.2]
      simp only [List.length_append, List.length_reverse, List.length_cons]
      omega
  unfold numberTail
  simp only []
  rw [baseTail_id (hid.imp id (fun h => ⟨h.1, h.2.1, h.2.2.1, h.2.2.2.1⟩)),
    octTail_id _ (hid.imp id (fun h => ⟨h.2.2.2.2.1, h.2.2.2.2.2⟩))]
  simp only [kvq_tokAt]
  refine ⟨?_, h2.1⟩
  rw [h2.2]; simp

/-! ## 5. hexadecimal, binary, octal literals -/

/-- the part of a hex literal the lexer reads last. -/
inductive HexEnd where
  | digits   -- `0x` + hex digits and `_`
  | frac     -- `… . hexdigits`
  | exp      -- `… (p|P) [+-] D*` with a sign or a digit after the `p`
  | expBare  -- `… (p|P)`
deriving DecidableEq, Repr

/-- the stop class of a hex literal. (`isHexDigit` contains every Unicode `Nd` digit, lexer.go:1197.) -/
def hexStop : HexEnd → Nat → Bool
  | .digits, f => !isHexDigit f && f != 95 && f != 46 && f != 112 && f != 80
  | .frac, f => !isHexDigit f && f != 112 && f != 80
  | .exp, f => !isDigit f
  | .expBare, f => !isDigit f && f != 43 && f != 45

inductive HexShape : Bytes → Bytes → HexEnd → Prop
  | digits : HexShape [] [] .digits
  | frac {h : Bytes} : (∀ b ∈ h, HexB b) → HexShape (46 :: h) [] .frac
  | exp {fr : Bytes} {c : UInt8} {sg ds : Bytes} : HexFrac fr → (c = 112 ∨ c = 80) → Sign sg → Digs ds →
      (sg ≠ [] ∨ ds ≠ []) → HexShape fr (c :: sg ++ ds) .exp
  | expBare {fr : Bytes} {c : UInt8} : HexFrac fr → (c = 112 ∨ c = 80) → HexShape fr [c] .expBare

theorem hexExpStage_none {x : LState × Bytes} (h1 : x.1.ch ≠ 112) (h2 : x.1.ch ≠ 80) : hexExpStage x = x := by
  unfold hexExpStage; rw [if_neg (by omega)]

theorem hexFracStage_none {x : LState × Bytes} (h : x.1.ch ≠ 46) : hexFracStage x = x := by
  unfold hexFracStage; rw [if_neg h]

/-- the binary exponent `(p|P) [+-] D*` in front of a rune that is no digit (and no sign, if nothing follows the `p`). -/
theorem hexExpStage_some {c : UInt8} {sg ds : Bytes} (hc : c = 112 ∨ c = 80) (hsg : Sign sg) (hds : Digs ds)
    (tail : Bytes) (hdig : isDigit (firstRune tail) = false)
    (hno : sg = [] → ds = [] → firstRune tail ≠ 43 ∧ firstRune tail ≠ 45)
    {x : LState × Bytes} {acc : Bytes} (hx : At x ((c :: sg ++ ds) ++ tail) acc) :
    At (hexExpStage x) tail ((c :: sg ++ ds).reverse ++ acc) := by
  have hlt : c.toNat < 128 := by rcases hc with h | h <;> (rw [h]; decide)
  have hx' : At x (c :: (sg ++ (ds ++ tail))) acc := by simpa [At] using hx
  have hch := hx'.ch_ascii hlt
  have h1 := takeChar_at hlt hx'
  have h2 := optChar2_at hsg (by
    intro hs0
    cases ds with
    | nil => rw [List.nil_append]; exact hno hs0 rfl
    | cons d ds' =>
      have := hds.head
      rw [List.cons_append, firstRune_cons_ascii d _ (by omega)]; omega) h1
  have h3 := scanWhile_at digitCond digitCond_ok isDigit digitCond_live hds.lt hds.isDigit hdig h2
  unfold hexExpStage
  rw [if_pos (by rw [hch]; rcases hc with h | h <;> (rw [h]; decide))]
  refine ⟨h3.1, ?_⟩
  rw [h3.2]; simp

theorem hexFrac_then {fr : Bytes} (h : HexFrac fr) {c : UInt8} (hc : c = 112 ∨ c = 80) (T : Bytes)
    {x : LState × Bytes} {acc : Bytes} (hx : At x (fr ++ (c :: T)) acc) :
    At (hexFracStage x) (c :: T) (fr.reverse ++ acc) := by
  have hlt : c.toNat < 128 := by rcases hc with h | h <;> (rw [h]; decide)
  apply hexFracStage_at h ?_ ?_ hx
  · rw [firstRune_cons_ascii c T hlt]; rcases hc with h | h <;> (rw [h]; decide)
  · rw [firstRune_cons_ascii c T hlt]; rcases hc with h | h <;> (rw [h]; decide)

/-- the fraction and exponent stages of `hexTail`, by shape. -/
theorem hexStages_at {fr ex : Bytes} {k : HexEnd} (h : HexShape fr ex k) (tail : Bytes)
    (hstop : hexStop k (firstRune tail) = true) {x : LState × Bytes} {acc : Bytes}
    (hx : At x (fr ++ (ex ++ tail)) acc) :
    At (hexExpStage (hexFracStage x)) tail (ex.reverse ++ (fr.reverse ++ acc)) := by
  cases h with
  | digits =>
    simp only [hexStop, Bool.and_eq_true, Bool.not_eq_true', bne_iff_ne, ne_eq] at hstop
    have hx' : At x tail acc := hx
    have hch := hx'.1.ch
    rw [hexFracStage_none (by rw [hch]; exact hstop.1.1.2),
      hexExpStage_none (by rw [hch]; exact hstop.1.2) (by rw [hch]; exact hstop.2)]
    exact hx'
  | @frac hh hall =>
    simp only [hexStop, Bool.and_eq_true, Bool.not_eq_true', bne_iff_ne, ne_eq] at hstop
    have hx' : At x (46 :: (hh ++ tail)) acc := by simpa [At] using hx
    have hch : x.1.ch = 46 := hx'.ch_ascii (b := 46) (by decide)
    have h1 := takeChar_at (b := 46) (by decide) hx'
    have hlt : ∀ b ∈ hh, b.toNat < 128 := fun b hb => by have := hall b hb; unfold HexB at this; omega
    have h2 := scanWhile_at hexDigitCond hexDigitCond_ok isHexDigit hexDigitCond_live hlt
      (fun b hb => hex_facts _ (hlt b hb) (hall b hb)) hstop.1.1 h1
    have e : hexFracStage x = scanWhile hexDigitCond hexDigitCond_ok (takeChar x).1 (takeChar x).2 := by
      unfold hexFracStage; rw [if_pos hch]
    rw [e, hexExpStage_none (by rw [h2.1.ch]; exact hstop.1.2) (by rw [h2.1.ch]; exact hstop.2)]
    refine ⟨h2.1, ?_⟩
    rw [h2.2]; simp
  | @exp _ c sg ds hfr hc hsg hds hne =>
    simp only [hexStop, Bool.not_eq_true'] at hstop
    have hx' : At x (fr ++ (c :: ((sg ++ ds) ++ tail))) acc := by simpa [At] using hx
    have h1 := hexFrac_then hfr hc _ hx'
    have h2 := hexExpStage_some hc hsg hds tail hstop
      (by intro a b; rcases hne with h | h; exact absurd a h; exact absurd b h) (x := hexFracStage x)
      (acc := fr.reverse ++ acc) (by simpa [At] using h1)
    exact h2
  | @expBare _ c hfr hc =>
    simp only [hexStop, Bool.and_eq_true, Bool.not_eq_true', bne_iff_ne, ne_eq] at hstop
    have hx' : At x (fr ++ (c :: tail)) acc := by simpa [At] using hx
    have h1 := hexFrac_then hfr hc _ hx'
    have h2 := hexExpStage_some (sg := []) (ds := []) hc Sign.none (fun _ h => by cases h) tail hstop.1.1
      (fun _ _ => ⟨hstop.1.2, hstop.2⟩) (x := hexFracStage x) (acc := fr.reverse ++ acc) (by simpa [At] using h1)
    simpa using h2

/-- the first rune after the hex digits: `.`, `p`/`P` or the follower — no hex digit and no `_`. -/
theorem HexShape.first {fr ex : Bytes} {k : HexEnd} (h : HexShape fr ex k) (tail : Bytes)
    (hstop : hexStop k (firstRune tail) = true) :
    (isHexDigit (firstRune (fr ++ (ex ++ tail))) || decide (firstRune (fr ++ (ex ++ tail)) = 95)) = false := by
  have hfr : ∀ {fr : Bytes}, HexFrac fr → ∀ (c : UInt8) (T : Bytes), (c = 112 ∨ c = 80) →
      (isHexDigit (firstRune (fr ++ (c :: T))) || decide (firstRune (fr ++ (c :: T)) = 95)) = false := by
    intro fr hf c T hc
    cases hf with
    | none => rcases hc with h | h <;> subst h <;> (rw [List.nil_append, firstRune_cons_ascii _ _ (by decide)]; decide)
    | some _ => rw [List.cons_append, firstRune_cons_ascii _ _ (by decide)]; decide
  cases h with
  | digits =>
    simp only [hexStop, Bool.and_eq_true, Bool.not_eq_true', bne_iff_ne, ne_eq] at hstop
    simp [hstop.1.1.1.1, hstop.1.1.1.2]
  | frac _ => rw [List.cons_append, firstRune_cons_ascii _ _ (by decide)]; decide
  | exp hf hc _ _ _ => rw [List.cons_append, List.cons_append]; exact hfr hf _ _ hc
  | expBare hf hc => exact hfr hf _ _ hc

/-- hexadecimal literals `0x…` followed by a rune of `hexStop`. The value is the text as written. -/
theorem hex_ends_at_stop {c : UInt8} (hc : c = 120 ∨ c = 88) {h fr ex : Bytes} {k : HexEnd}
    (hh : ∀ b ∈ h, HexB b ∨ b = 95) (hsh : HexShape fr ex k) (tail : Bytes)
    (hstop : hexStop k (firstRune tail) = true)
    {s : LState} (hs : Ent s ((48 :: c :: (h ++ fr ++ ex)) ++ tail)) :
    (nextToken s).1.kvq = (tNUMBER, 48 :: c :: (h ++ fr ++ ex), false) ∧ Ent (nextToken s).2 tail := by
  have hs' : Ent s (48 :: c :: (h ++ (fr ++ (ex ++ tail)))) := by simpa using hs
  have hcn : c.toNat = 120 ∨ c.toNat = 88 := by rcases hc with h | h <;> (rw [h]; decide)
  have hlt : c.toNat < 128 := by omega
  obtain ⟨hX, hnt⟩ := basePrefix_path (by omega) _ hs'
  have h1 := takeChar_at hlt hX
  have hhlt : ∀ b ∈ h, b.toNat < 128 := fun b hb => by
    rcases hh b hb with h | h
    · unfold HexB at h; omega
    · rw [h]; decide
  have h2 := scanWhile_at hexDigitUsCond hexDigitUsCond_ok (fun c => isHexDigit c || decide (c = 95)) hexDigitUsCond_live
    hhlt (fun b hb => by
      rcases hh b hb with h | h
      · show (isHexDigit b.toNat || decide (b.toNat = 95)) = true
        rw [hex_facts _ (hhlt b hb) h]; rfl
      · rw [h]; decide)
    (tail := fr ++ (ex ++ tail)) (hsh.first tail hstop) h1
  have h4 := hexStages_at hsh tail hstop h2
  rw [← hexTail_eq] at h4
  have hbase : baseTail (scanWhile digitCond digitCond_ok s []) = hexTail (scanWhile digitCond digitCond_ok s []) := by
    unfold baseTail
    simp only []
    rw [if_pos ⟨by rw [hX.2]; rfl, by rw [hX.ch_ascii hlt]; exact hcn⟩]
  rw [hnt, hbase, octTail_id _ (Or.inl (by
    rw [h4.2]; simp only [List.length_append, List.length_reverse, List.length_cons]; omega))]
  simp only [kvq_tokAt]
  refine ⟨?_, h4.1⟩
  rw [h4.2]; simp

/-- binary literals `0b` + one of `0 1` + any of `0 1 _`, followed by anything but `0 1 _`. -/
theorem bin_ends_at_stop {c d : UInt8} (hc : c = 98 ∨ c = 66) (hd : d = 48 ∨ d = 49) {bs : Bytes}
    (hbs : ∀ b ∈ bs, b = 48 ∨ b = 49 ∨ b = 95) (tail : Bytes)
    (hstop : firstRune tail ≠ 48 ∧ firstRune tail ≠ 49 ∧ firstRune tail ≠ 95)
    {s : LState} (hs : Ent s ((48 :: c :: d :: bs) ++ tail)) :
    (nextToken s).1.kvq = (tNUMBER, 48 :: c :: d :: bs, false) ∧ Ent (nextToken s).2 tail := by
  have hs' : Ent s (48 :: c :: ((d :: bs) ++ tail)) := by simpa using hs
  have hcn : c.toNat = 98 ∨ c.toNat = 66 := by rcases hc with h | h <;> (rw [h]; decide)
  have hdn : d.toNat = 48 ∨ d.toNat = 49 := by rcases hd with h | h <;> (rw [h]; decide)
  have hlt : c.toNat < 128 := by omega
  obtain ⟨hX, hnt⟩ := basePrefix_path (by omega) _ hs'
  have hX' : At (scanWhile digitCond digitCond_ok s []) (c :: d :: (bs ++ tail)) [48] := hX
  have hpk := hX'.peek_ascii hlt (by omega)
  have h1 := takeChar_at hlt hX
  have hall : ∀ b ∈ d :: bs, b = 48 ∨ b = 49 ∨ b = 95 := by
    intro b hb
    rcases List.mem_cons.1 hb with h | h
    · rw [h]; rcases hd with h | h <;> simp [h]
    · exact hbs b h
  have h2 := scanWhile_at binDigitCond binDigitCond_ok (fun c => decide (c = 48) || decide (c = 49) || decide (c = 95))
    (fun _ _ => rfl) (bs := d :: bs) (fun b hb => by rcases hall b hb with h | h | h <;> (rw [h]; decide))
    (fun b hb => by rcases hall b hb with h | h | h <;> (rw [h]; decide))
    (tail := tail) (by
      simp only [Bool.or_eq_false_iff, decide_eq_false_iff_not]
      exact ⟨⟨hstop.1, hstop.2.1⟩, hstop.2.2⟩) h1
  have hbase : baseTail (scanWhile digitCond digitCond_ok s []) =
      scanWhile binDigitCond binDigitCond_ok (takeChar (scanWhile digitCond digitCond_ok s [])).1
        (takeChar (scanWhile digitCond digitCond_ok s [])).2 := by
    unfold baseTail
    simp only []
    rw [if_neg (by rw [hX.ch_ascii hlt]; omega),
      if_pos ⟨by rw [hX.2]; rfl, by rw [hX.ch_ascii hlt]; exact hcn, by rw [hpk]; exact hdn⟩]
  rw [hnt, hbase, octTail_id _ (Or.inl (by
    rw [h2.2]; simp only [List.length_append, List.length_reverse, List.length_cons]; omega))]
  simp only [kvq_tokAt]
  refine ⟨?_, h2.1⟩
  rw [h2.2]; simp

/-- octal literals `0o` + any of `0…7 _` (possibly none), followed by anything but `0…7 _`. -/
theorem oct_ends_at_stop {c : UInt8} (hc : c = 111 ∨ c = 79) {os : Bytes}
    (hos : ∀ b ∈ os, (48 ≤ b.toNat ∧ b.toNat ≤ 55) ∨ b = 95) (tail : Bytes)
    (hstop : ¬(48 ≤ firstRune tail ∧ firstRune tail ≤ 55) ∧ firstRune tail ≠ 95)
    {s : LState} (hs : Ent s ((48 :: c :: os) ++ tail)) :
    (nextToken s).1.kvq = (tNUMBER, 48 :: c :: os, false) ∧ Ent (nextToken s).2 tail := by
  have hs' : Ent s (48 :: c :: (os ++ tail)) := by simpa using hs
  have hcn : c.toNat = 111 ∨ c.toNat = 79 := by rcases hc with h | h <;> (rw [h]; decide)
  have hlt : c.toNat < 128 := by omega
  obtain ⟨hX, hnt⟩ := basePrefix_path (by omega) _ hs'
  have h1 := takeChar_at hlt hX
  have holt : ∀ b ∈ os, b.toNat < 128 := fun b hb => by
    rcases hos b hb with h | h
    · omega
    · rw [h]; decide
  have h2 := scanWhile_at octDigitCond octDigitCond_ok (fun c => (decide (48 ≤ c) && decide (c ≤ 55)) || decide (c = 95))
    (fun _ _ => rfl) holt (fun b hb => by
      rcases hos b hb with h | h
      · simp [h.1, h.2]
      · rw [h]; decide)
    (tail := tail) (by
      simp only [Bool.or_eq_false_iff, Bool.and_eq_false_iff, decide_eq_false_iff_not]
      omega) h1
  have hbase : baseTail (scanWhile digitCond digitCond_ok s []) = scanWhile digitCond digitCond_ok s [] := by
    unfold baseTail
    simp only []
    rw [if_neg (by rw [hX.ch_ascii hlt]; omega), if_neg (by rw [hX.ch_ascii hlt]; omega)]
  have hoct : octTail 48 (scanWhile digitCond digitCond_ok s []) =
      scanWhile octDigitCond octDigitCond_ok (takeChar (scanWhile digitCond digitCond_ok s [])).1
        (takeChar (scanWhile digitCond digitCond_ok s [])).2 := by
    unfold octTail
    rw [if_pos ⟨rfl, by rw [hX.2]; rfl, by rw [hX.2]; rfl⟩, if_pos (by rw [hX.ch_ascii hlt]; exact hcn)]
  rw [hnt, hbase, hoct]
  simp only [kvq_tokAt]
  refine ⟨?_, h2.1⟩
  rw [h2.2]; simp

/-! ## 6. numbers with a leading dot (`readDot` → `isIdentifierAfterDot` → `readNumber`) -/

/-- `.D+` alone ends like an integer, `.D+` with an exponent like an exponent. -/
inductive DotShape : Bytes → Bytes → NumEnd → Prop
  | none : DotShape [] [] .int
  | some {e ev : Bytes} : Exp e ev → DotShape e ev .exp

theorem DotShape.numShape {e ev : Bytes} {k : NumEnd} (h : DotShape e ev k) : NumShape [] e ev k := by
  cases h with
  | none => exact NumShape.int
  | some he => exact NumShape.exp he

theorem takeWhile_digs_all {ds : Bytes} (hd : Digs ds) :
    ds.takeWhile (fun b => decide (48 ≤ b.toNat) && decide (b.toNat ≤ 57)) = ds := by
  induction ds with
  | nil => rfl
  | cons d ds ih =>
    have := hd.head
    simp [this.1, this.2]
    exact ih hd.tail

/-- the window holds nothing but digits (the input ends after them): not an identifier. -/
theorem identAfterDot_eof (s : LState) {ds : Bytes} (hne : ds ≠ []) (hd : Digs ds) (hb : peekBytes s 32 = ds) :
    isIdentifierAfterDot s = false := by
  unfold isIdentifierAfterDot
  simp only [hb, takeWhile_digs_all hd]
  have hlen : ds.length ≠ 0 := by cases ds with | nil => exact absurd rfl hne | cons _ _ => simp
  simp [hlen]

/-- `isIdentifierAfterDot` in front of at most 28 digits and then an exponent, or a follower that is no digit, no
`_` and no letter. -/
theorem identAfterDot_dotnum_stop {ds e ev : Bytes} {k : NumEnd} (hne : ds ≠ []) (hd : Digs ds) (hn : ds.length ≤ 28)
    (he : DotShape e ev k) (tail : Bytes) (hstop : numStop k (firstRune tail) = true)
    {s : LState} (hrest : s.rest = ds ++ (e ++ tail)) : isIdentifierAfterDot s = false := by
  have hpb : peekBytes s 32 = ds ++ (e ++ tail).take (32 - ds.length) := by
    unfold peekBytes
    rw [hrest, show min 32 4096 = 32 from rfl, List.take_append, List.take_of_length_le (by omega)]
  cases he with
  | none =>
    simp only [numStop, Bool.and_eq_true, Bool.not_eq_true', bne_iff_ne, ne_eq] at hstop
    rw [List.nil_append] at hpb
    cases tail with
    | nil =>
      rw [List.take_nil, List.append_nil] at hpb
      exact identAfterDot_eof s hne hd hpb
    | cons b0 T =>
      rw [show 32 - ds.length = (32 - ds.length - 1) + 1 by omega, List.take_succ_cons] at hpb
      have hf : firstRune (b0 :: T) = (decodeRune (b0 :: T.take (32 - ds.length - 1))).1 := by
        rw [← List.take_succ_cons, decodeRune_take _ _ (by omega)]; rfl
      have hb0 : b0.toNat < 128 → firstRune (b0 :: T) = b0.toNat := fun h => firstRune_cons_ascii b0 T h
      apply identAfterDot_nonletter s hne hd (t0 := b0) ?_ ?_ hpb
      · rw [← hf]; exact hstop.1.1.2
      · intro h
        have e := hb0 (by omega)
        have := (digit_facts _ (by omega) h).2.2
        rw [← e, hstop.1.1.1] at this; cases this
      · intro h
        subst h
        exact hstop.1.2 (hb0 (by decide))
  | some hexp =>
    cases hexp with
    | @mk c sg t v hc hsg ht =>
      obtain ⟨d, t', rfl, hdd⟩ := ht.first
      cases hsg with
      | none =>
        simp only [List.cons_append, List.nil_append] at hpb
        rw [show 32 - ds.length = (32 - ds.length - 2) + 1 + 1 by omega, List.take_succ_cons,
          List.take_succ_cons] at hpb
        exact identAfterDot_exp s hne hd hc (Or.inl hdd) hpb
      | plus =>
        simp only [List.cons_append, List.nil_append] at hpb
        rw [show 32 - ds.length = (32 - ds.length - 2) + 1 + 1 by omega, List.take_succ_cons,
          List.take_succ_cons] at hpb
        exact identAfterDot_exp s hne hd hc (Or.inr (Or.inl rfl)) hpb
      | minus =>
        simp only [List.cons_append, List.nil_append] at hpb
        rw [show 32 - ds.length = (32 - ds.length - 2) + 1 + 1 by omega, List.take_succ_cons,
          List.take_succ_cons] at hpb
        exact identAfterDot_exp s hne hd hc (Or.inr (Or.inr rfl)) hpb

/-- numbers with a leading dot: `.` + 1…28 ASCII digits + optional exponent, followed by a rune of `numStop`
(`int` without, `exp` with the exponent). -/
theorem dotnum_ends_at_stop {ds e ev : Bytes} {k : NumEnd} (hne : ds ≠ []) (hd : Digs ds) (hn : ds.length ≤ 28)
    (hexp : DotShape e ev k) (tail : Bytes) (hstop : numStop k (firstRune tail) = true)
    {s : LState} (hs : Ent s ((46 :: ds ++ e) ++ tail)) :
    (nextToken s).1.kvq = (tNUMBER, 46 :: ds ++ ev, false) ∧ Ent (nextToken s).2 tail := by
  have hs' : Ent s ([46] ++ (ds ++ (e ++ tail))) := by simpa using hs
  obtain ⟨hch, he, hrest⟩ := hs'.dec dec46
  obtain ⟨d0, ds', rfl⟩ : ∃ d0 ds', ds = d0 :: ds' := by
    cases ds with
    | nil => exact absurd rfl hne
    | cons a b => exact ⟨a, b, rfl⟩
  have hd0 := hd.head
  have hpk : peekChar s = d0.toNat :=
    (hs'.peek dec46 d0.toNat (by omega)).2 (firstRune_cons_ascii d0 _ (by omega))
  have hst : Stop (e ++ tail) := hexp.numShape.stop tail hstop
  -- dispatch
  rw [nextToken_of_E (nextTokenE_dot he hch)]
  unfold readDot
  rw [if_pos (by rw [hpk]; exact (digit_facts _ (by omega) hd0).2.2),
    if_neg (by rw [identAfterDot_dotnum_stop hne hd hn hexp tail hstop hrest]; decide)]
  -- `readNumber`
  have hp0 : At (takeChar (s, [])) ((d0 :: ds') ++ (e ++ tail)) [46] :=
    takeChar_at (b := 46) (by decide) (x := (s, [])) ⟨hs', rfl⟩
  have hfin : ∀ {x : LState × Bytes}, At x (ds' ++ (e ++ tail)) (d0 :: [46]) →
      (decimalTail s x).1.kvq = (tNUMBER, 46 :: (d0 :: ds') ++ ev, false) ∧ Ent (decimalTail s x).2 tail := by
    intro x hx
    obtain ⟨e1, e2⟩ := digitsUs_plain hd.tail hst x.2 hx.1
    have h2 := fracExp_at_stop hexp.numShape tail hstop (x := digitsUs x.1 x.2) (acc := ds'.reverse ++ (d0 :: [46]))
      ⟨e2, by rw [e1, hx.2]⟩
    rw [decimalTail_eq]
    simp only [kvq_tokAt]
    refine ⟨?_, h2.1⟩
    rw [h2.2]; simp
  unfold readNumber
  simp only []
  rw [if_pos hch]
  have hc1 : (takeChar (s, [])).1.ch = d0.toNat := hp0.ch_ascii (by omega)
  by_cases hz : d0.toNat = 48
  · rw [if_pos (by rw [hc1]; exact hz)]
    have hp1 : At (takeChar (takeChar (s, []))) (ds' ++ (e ++ tail)) (d0 :: [46]) :=
      takeChar_at (by omega) hp0
    have hc2 : (takeChar (takeChar (s, []))).1.ch = firstRune (ds' ++ (e ++ tail)) := hp1.1.ch
    have hnb : ∀ n : Nat, (n = 120 ∨ n = 88 ∨ n = 98 ∨ n = 66 ∨ n = 111 ∨ n = 79) →
        (takeChar (takeChar (s, []))).1.ch ≠ n := by
      intro n hn'
      rw [hc2]
      rcases firstRune_digs hd.tail (e ++ tail) with h | h
      · rw [h]
        cases hexp with
        | none =>
          simp only [numStop, Bool.and_eq_true, Bool.not_eq_true', bne_iff_ne, ne_eq] at hstop
          rw [List.nil_append]
          exact letter_ne hstop.1.1.2 (by rcases hn' with h | h | h | h | h | h <;> (rw [h]; decide))
        | some he' =>
          obtain ⟨c, t, rfl, hc⟩ := he'.first
          rcases hc with h | h
          · subst h; rw [List.cons_append, firstRune_cons_ascii 101 _ (by decide)]
            show (101 : Nat) ≠ n; omega
          · subst h; rw [List.cons_append, firstRune_cons_ascii 69 _ (by decide)]
            show (69 : Nat) ≠ n; omega
      · omega
    unfold zeroPrefix
    simp only []
    rw [if_neg (by intro h; rcases h with h | h <;> exact hnb _ (by omega) h),
      if_neg (by intro h; rcases h with h | h <;> exact hnb _ (by omega) h),
      if_neg (by intro h; rcases h with h | h <;> exact hnb _ (by omega) h)]
    exact hfin hp1
  · rw [if_neg (by rw [hc1]; exact hz)]
    obtain ⟨e1, e2⟩ := digitsUs_plain hd hst (takeChar (s, [])).2 hp0.1
    have h2 := fracExp_at_stop hexp.numShape tail hstop (x := digitsUs (takeChar (s, [])).1 (takeChar (s, [])).2)
      (acc := (d0 :: ds').reverse ++ [46]) ⟨e2, by rw [e1, hp0.2]⟩
    rw [decimalTail_eq]
    simp only [kvq_tokAt]
    refine ⟨?_, h2.1⟩
    rw [h2.2]; simp

/-! ## 7. digit-initial identifiers -/

/-- `D+ _ x…` followed by a rune that is not an identifier character. -/
theorem digIdentUs_ends_at_stop {ds body : Bytes} {r0 : Nat} {rs : List Nat} (hne : ds ≠ []) (hd : Digs ds)
    (hb : Spells body (r0 :: rs)) (h0lt : r0 < 128) (h0 : isLetter r0 = true ∨ r0 = 95)
    (hall : ∀ x ∈ r0 :: rs, isIdentChar x = true)
    (tail : Bytes) (hstop : isIdentChar (firstRune tail) = false)
    {s : LState} (hs : Ent s ((ds ++ 95 :: body) ++ tail)) :
    (nextToken s).1.kvq = (tIDENT, ds ++ 95 :: enc (r0 :: rs), false) ∧ Ent (nextToken s).2 tail := by
  have hs' : Ent s (ds ++ (95 :: (body ++ tail))) := by simpa using hs
  have hX := scanWhile_at digitCond digitCond_ok isDigit digitCond_live hd.lt hd.isDigit
    (tail := 95 :: (body ++ tail)) (by rw [firstRune_cons_ascii 95 _ (by decide)]; decide)
    (x := (s, [])) (acc := []) ⟨hs', rfl⟩
  rw [List.append_nil] at hX
  have hX' : At (scanWhile digitCond digitCond_ok s []) (95 :: (body ++ tail)) ds.reverse := hX
  obtain ⟨d0, ds', rfl⟩ : ∃ d0 ds', ds = d0 :: ds' := by
    cases ds with
    | nil => exact absurd rfl hne
    | cons a b => exact ⟨a, b, rfl⟩
  have hd0 := hd.head
  have hs0 : Ent s ([d0] ++ (ds' ++ (95 :: (body ++ tail)))) := hs'
  obtain ⟨hc0, he, _⟩ := hs0.dec (dec_ascii (by omega))
  have hch : (scanWhile digitCond digitCond_ok s []).1.ch = 95 := hX'.ch_ascii (b := 95) (by decide)
  obtain ⟨p, bs, rfl, hdp, hb1⟩ := hb.cons_inv
  have hpk : peekChar (scanWhile digitCond digitCond_ok s []).1 = r0 := by
    have he' : Ent (scanWhile digitCond digitCond_ok s []).1 ([95] ++ (p ++ (bs ++ tail))) := by
      simpa using hX'.1
    exact (he'.peek (dec_ascii (b := 95) (by decide)) r0 h0lt).2 (firstRune_dec hdp _)
  have h1 := takeChar_at (b := 95) (by decide) hX'
  obtain ⟨ha, hst⟩ := scanWhile_run identCharCond identCharCond_ok isIdentChar identCharCond_live
    (Spells.cons hdp hb1) hall (rest := tail) hstop
    (takeChar (scanWhile digitCond digitCond_ok s [])).2 h1.1
  rw [nextToken_of_E (nextTokenE_digit he (by rw [hc0]; exact hd0))]
  unfold readNumberOrIdent
  simp only []
  rw [if_pos ⟨hch, by rw [hpk]; exact h0⟩]
  simp only [kvq_tokAt]
  refine ⟨?_, hst⟩
  rw [ha, h1.2]; simp

/-- `D+ x…` (`x` a letter; after `e`/`E` no ASCII digit; not a base prefix after a lone `0`) followed by a rune that
is not an identifier character — and, if the text is `D+e` / `D+E`, not a sign either (`1e+` is a number). -/
theorem digIdent_ends_at_stop {ds body : Bytes} {r0 : Nat} {rs : List Nat} (hne : ds ≠ []) (hd : Digs ds)
    (hb : Spells body (r0 :: rs)) (h0 : isLetter r0 = true)
    (hexp : (r0 = 101 ∨ r0 = 69) → ∀ r1 rs', rs = r1 :: rs' → ¬(48 ≤ r1 ∧ r1 ≤ 57))
    (hbase : ds = [48] → r0 ≠ 120 ∧ r0 ≠ 88 ∧ r0 ≠ 98 ∧ r0 ≠ 66 ∧ r0 ≠ 111 ∧ r0 ≠ 79)
    (hall : ∀ x ∈ r0 :: rs, isIdentChar x = true)
    (tail : Bytes) (hstop : isIdentChar (firstRune tail) = false)
    (hsign : (r0 = 101 ∨ r0 = 69) → rs = [] → firstRune tail ≠ 43 ∧ firstRune tail ≠ 45)
    {s : LState} (hs : Ent s ((ds ++ body) ++ tail)) :
    (nextToken s).1.kvq = (tIDENT, ds ++ enc (r0 :: rs), false) ∧ Ent (nextToken s).2 tail := by
  obtain ⟨p, bs, rfl, hdp, hb1⟩ := hb.cons_inv
  have hs' : Ent s (ds ++ (p ++ (bs ++ tail))) := by simpa using hs
  have hX := scanWhile_at digitCond digitCond_ok isDigit digitCond_live hd.lt hd.isDigit
    (tail := p ++ (bs ++ tail)) (by rw [firstRune_dec hdp]; exact letter_not_digit h0)
    (x := (s, [])) (acc := []) ⟨hs', rfl⟩
  rw [List.append_nil] at hX
  have hX' : At (scanWhile digitCond digitCond_ok s []) (p ++ (bs ++ tail)) ds.reverse := hX
  obtain ⟨d0, ds', rfl⟩ : ∃ d0 ds', ds = d0 :: ds' := by
    cases ds with
    | nil => exact absurd rfl hne
    | cons a b => exact ⟨a, b, rfl⟩
  have hd0 := hd.head
  have hs0 : Ent s ([d0] ++ (ds' ++ (p ++ (bs ++ tail)))) := hs'
  obtain ⟨hc0, he, _⟩ := hs0.dec (dec_ascii (by omega))
  have hch : (scanWhile digitCond digitCond_ok s []).1.ch = r0 := (hX'.1.dec hdp).1
  have h95 : r0 ≠ 95 := by intro h; rw [h] at h0; revert h0; decide
  have hX1 : Ent (scanWhile digitCond digitCond_ok s []).1 ((p ++ bs) ++ tail) := by simpa using hX'.1
  obtain ⟨ha, hst⟩ := scanWhile_run identCharCond identCharCond_ok isIdentChar identCharCond_live
    (Spells.cons hdp hb1) hall (rest := tail) hstop
    (scanWhile digitCond digitCond_ok s []).2 hX1
  rw [nextToken_of_E (nextTokenE_digit he (by rw [hc0]; exact hd0))]
  unfold readNumberOrIdent
  simp only []
  rw [if_neg (by rw [hch]; exact fun h => h95 h.1), if_pos]
  · simp only [kvq_tokAt]
    refine ⟨?_, hst⟩
    rw [ha, hX'.2]; simp
  · rw [hch, hX'.2]
    refine ⟨h0, ?_, ?_⟩
    · by_cases hE : r0 = 101 ∨ r0 = 69
      · have hpk : isDigit (peekChar (scanWhile digitCond digitCond_ok s []).1) = false ∧
            peekChar (scanWhile digitCond digitCond_ok s []).1 ≠ 43 ∧
            peekChar (scanWhile digitCond digitCond_ok s []).1 ≠ 45 := by
          cases hb1 with
          | nil =>
            have hp := peekChar_tail (by simpa using hX'.1 : Ent (scanWhile digitCond digitCond_ok s []).1 (p ++ tail)) hdp
            have hsg := hsign hE rfl
            rw [hp]
            exact ⟨isDigit_peekOf (identChar_parts hstop).2.2.2.1,
              fun e => hsg.1 ((peekOf_eq_iff _ 43 (by decide)).1 e),
              fun e => hsg.2 ((peekOf_eq_iff _ 45 (by decide)).1 e)⟩
          | @cons q r1 bs' rs' hq hb' =>
            have hr1 := hall r1 (List.mem_cons_of_mem _ (List.mem_cons_self ..))
            have hnd := hexp hE r1 rs' rfl
            have he' : Ent (scanWhile digitCond digitCond_ok s []).1 (p ++ (q ++ (bs' ++ tail))) := by
              simpa using hX'.1
            rcases peek_dec hdp hq _ he' with ⟨h, hlt⟩ | h
            · rw [h]
              refine ⟨?_, ?_, ?_⟩
              · cases hdg : isDigit r1 with
                | false => rfl
                | true => exact absurd (ascii_digit r1 hlt hdg) hnd
              · intro e; rw [e] at hr1; revert hr1; decide
              · intro e; rw [e] at hr1; revert hr1; decide
            · rw [h]
              exact ⟨runeError_inert.1, by unfold runeError; omega, by unfold runeError; omega⟩
        simp [hpk.1, hpk.2.1, hpk.2.2]
      · have h1 : r0 ≠ 101 := fun h => hE (Or.inl h)
        have h2 : r0 ≠ 69 := fun h => hE (Or.inr h)
        simp [h1, h2]
    by_cases hz : d0 :: ds' = [48]
    · have := hbase hz
      simp [this.1, this.2.1, this.2.2.1, this.2.2.2.1, this.2.2.2.2.1, this.2.2.2.2.2]
    · have : ((d0 :: ds').reverse == [48]) = false := by
        rw [beq_eq_false_iff_ne]
        intro h
        have := congrArg List.reverse h
        rw [List.reverse_reverse] at this
        exact hz this
      rw [this]; rfl

/-! ## 8. `$`-initial identifiers where `tryReadDollarTag` gives up before its 4096-byte search -/

theorem winDecode_tail (b : UInt8) (T : Bytes) {k : Nat} (hk : 4 ≤ k) :
    (winDecode (b :: T) k).1 = firstRune (b :: T) := by
  unfold winDecode
  rw [decodeRune_take _ _ (by omega)]
  rfl

/-- once `tryReadDollarTag` has answered "no tag": `$` + identifier characters, up to the follower. -/
theorem readDollar_ident_stop {body : Bytes} {rs : List Nat} (hb : Spells body rs)
    (hall : ∀ x ∈ rs, isIdentChar x = true) (tail : Bytes) (hstop : isIdentChar (firstRune tail) = false)
    {s : LState} (hs : Ent s ((36 :: body) ++ tail))
    (h36 : firstRune (body ++ tail) ≠ 36)
    (htag : tryReadDollarTag s = .ok ([], s)) :
    (nextToken s).1.kvq = (tIDENT, 36 :: enc rs, false) ∧ Ent (nextToken s).2 tail := by
  have hs' : Ent s ([36] ++ (body ++ tail)) := by simpa using hs
  obtain ⟨hch, he, _⟩ := hs'.dec dec36
  have hpk : ¬ peekChar s = 36 := by rw [hs'.peek dec36 36 (by decide)]; exact h36
  obtain ⟨ha, hst⟩ := scanWhile_run dollarIdentCond dollarIdentCond_ok (fun c => isIdentChar c || decide (c = 36))
    dollarIdentCond_live hb (fun x hx => by simp [hall x hx]) (rest := tail)
    (by rw [hstop]; simp; exact (identChar_parts hstop).2.1) (pushRune [] s.ch) (hs'.readChar dec36)
  have hE : nextTokenE s = .ok (readDollarIdentifier s) := by
    rw [nextTokenE_dollar he hch]
    unfold readDollar
    rw [if_neg hpk, htag]
    simp
  rw [nextToken_of_E hE]
  simp only [readDollarIdentifier, kvq_tokAt]
  refine ⟨?_, hst⟩
  rw [ha, hch]
  simp [pushRune, encodeRune]

/-- `$` alone, or `$` + a digit + identifier characters, followed by a rune that is not an identifier character. -/
theorem dollarDigit_ends_at_stop {body : Bytes} {rs : List Nat} (hb : Spells body rs)
    (h0 : ∀ r0 rs', rs = r0 :: rs' → isDigit r0 = true) (hall : ∀ x ∈ rs, isIdentChar x = true)
    (tail : Bytes) (hstop : isIdentChar (firstRune tail) = false)
    {s : LState} (hs : Ent s ((36 :: body) ++ tail)) :
    (nextToken s).1.kvq = (tIDENT, 36 :: enc rs, false) ∧ Ent (nextToken s).2 tail := by
  have hs' : Ent s ([36] ++ (body ++ tail)) := by simpa using hs
  obtain ⟨_, _, hrest⟩ := hs'.dec dec36
  obtain ⟨hf95, hf36, hfl, _, _⟩ := identChar_parts hstop
  -- the first rune after `$`: a digit, the follower, or nothing
  have hfirst : isLetter (firstRune (body ++ tail)) = false ∧ firstRune (body ++ tail) ≠ 95 ∧
      firstRune (body ++ tail) ≠ 36 := by
    cases hb with
    | nil => exact ⟨hfl, hf95, hf36⟩
    | @cons p r0 bs rs' hd hb' =>
      have hdig := h0 r0 rs' rfl
      rw [List.append_assoc, firstRune_dec hd]
      refine ⟨?_, ?_, ?_⟩
      · cases hl : isLetter r0 with
        | false => rfl
        | true => rw [letter_not_digit hl] at hdig; cases hdig
      · intro h; rw [h] at hdig; revert hdig; decide
      · intro h; rw [h] at hdig; revert hdig; decide
  have htag : tryReadDollarTag s = .ok ([], s) := by
    unfold tryReadDollarTag
    simp only []
    rw [hrest]
    cases hbt : body ++ tail with
    | nil => rfl
    | cons b T =>
      rw [hbt] at hfirst
      have hw := winDecode_tail b T (k := 4096) (by decide)
      simp only [List.isEmpty_cons, Bool.false_eq_true, if_false]
      rw [if_pos (by rw [hw, hfirst.1]; simp; exact hfirst.2.1)]
  exact readDollar_ident_stop hb hall tail hstop hs hfirst.2.2 htag

theorem tagScan_run_stop {body : Bytes} {rs : List Nat} (hb : Spells body rs) (hall : ∀ x ∈ rs, isTagChar x = true)
    (tail : Bytes) (hr : isTagChar (firstRune tail) = false) :
    ∀ (k : Nat) (tag : Bytes), body.length + 4 ≤ k →
      tagScan (body ++ tail) k tag = (tail, k - body.length, (enc rs).reverse ++ tag) := by
  induction hb with
  | nil =>
    intro k tag hk
    have hk' : 4 ≤ k := by simpa using hk
    rw [List.nil_append]
    cases tail with
    | nil => rw [tagScan.eq_1, dif_pos (Or.inr rfl)]; simp [enc]
    | cons b T =>
      rw [tagScan.eq_1, dif_neg (by intro h; rcases h with h | h; omega; cases h)]
      simp only []
      have hw := winDecode_tail b T hk'
      unfold isTagChar at hr
      rw [← hw] at hr
      simp only [hr]
      simp [enc]
  | @cons p r0 bs rs' hd _ ih =>
    intro k tag hk
    have hr0 := hall r0 (List.mem_cons_self ..)
    have hpl : 0 < p.length := by
      cases p with
      | nil => exact absurd rfl hd.1
      | cons _ _ => simp
    have hne : p ++ bs ++ tail ≠ [] := by
      cases p with
      | nil => exact absurd rfl hd.1
      | cons _ _ => simp
    rw [List.length_append] at hk
    rw [tagScan.eq_1, dif_neg (by intro h; rcases h with h | h <;> first | omega | exact hne h)]
    simp only []
    rw [List.append_assoc, winDecode_dec hd _ (by omega)]
    unfold isTagChar at hr0
    simp only [hr0, if_true, List.drop_left']
    rw [ih (fun x hx => hall x (List.mem_cons_of_mem _ hx)) (k - p.length) (pushRune tag r0) (by omega)]
    simp [enc, pushRune, List.length_append]
    omega

/-- `$name` (tag characters, first one a letter or `_`, at most 4092 bytes) followed by a rune that is not an
identifier character (in particular not a second `$`): no tag, an identifier. -/
theorem dollarName_ends_at_stop {body : Bytes} {r0 : Nat} {rs : List Nat} (hb : Spells body (r0 :: rs))
    (h0 : isLetter r0 = true ∨ r0 = 95) (hall : ∀ x ∈ r0 :: rs, isTagChar x = true) (hlen : body.length ≤ 4092)
    (tail : Bytes) (hstop : isIdentChar (firstRune tail) = false)
    {s : LState} (hs : Ent s ((36 :: body) ++ tail)) :
    (nextToken s).1.kvq = (tIDENT, 36 :: enc (r0 :: rs), false) ∧ Ent (nextToken s).2 tail := by
  obtain ⟨hf95, hf36, hfl, hfd, _⟩ := identChar_parts hstop
  have hs' : Ent s ([36] ++ (body ++ tail)) := by simpa using hs
  obtain ⟨_, _, hrest⟩ := hs'.dec dec36
  have hident : ∀ x ∈ r0 :: rs, isIdentChar x = true := by
    intro x hx
    have := hall x hx
    unfold isTagChar at this
    unfold isIdentChar
    simp only [Bool.or_eq_true, decide_eq_true_eq] at this ⊢
    rcases this with (h | h) | h
    · exact Or.inl (Or.inr h)
    · exact Or.inr h
    · exact Or.inl (Or.inl (Or.inl h))
  have hrtag : isTagChar (firstRune tail) = false := by
    unfold isTagChar
    rw [hfl, hfd]
    simp; exact hf95
  obtain ⟨p, bs, rfl, hdp, hb1⟩ := hb.cons_inv
  have h36 : r0 ≠ 36 := by
    intro h; rw [h] at h0; revert h0; decide
  have hpl : 0 < p.length := by
    cases p with
    | nil => exact absurd rfl hdp.1
    | cons _ _ => simp
  rw [List.length_append] at hlen
  have htag : tryReadDollarTag s = .ok ([], s) := by
    unfold tryReadDollarTag
    simp only []
    rw [hrest]
    have hne : (p ++ bs ++ tail).isEmpty = false := by
      cases p with
      | nil => exact absurd rfl hdp.1
      | cons _ _ => rfl
    rw [hne, List.append_assoc, winDecode_dec hdp _ (by decide)]
    have hnb : (!isLetter r0 && decide (r0 ≠ 95)) = false := by
      rcases h0 with h | h <;> simp [h]
    simp only [hnb, Bool.false_eq_true, if_false, List.drop_left']
    rw [tagScan_run_stop hb1 (fun x hx => hall x (List.mem_cons_of_mem _ hx)) tail hrtag _ _ (by omega)]
    simp only []
    cases tail with
    | nil => rw [if_pos (Or.inr rfl)]
    | cons b T =>
      rw [if_neg (by intro h; rcases h with h | h; omega; cases h)]
      have hw := winDecode_tail b T (k := 4096 - p.length - bs.length) (by omega)
      rw [if_pos (by rw [hw]; exact hf36)]
  exact readDollar_ident_stop (Spells.cons hdp hb1) hident tail hstop hs
    (by rw [List.append_assoc, firstRune_dec hdp]; exact h36) htag

/-! ## 9. token classes, their stop classes, and the uniform statement -/

/-- what has to be known of a token to say which followers end it. -/
inductive Cls where
  /-- identifier / keyword; `xb`: it is one of the single letters `x X b B` -/
  | ident (xb : Bool)
  /-- `@@name`, `D+_x…`, `D+x…`, `$…`: read by a loop over identifier characters -/
  | identLike
  /-- `D+e`, `D+E` -/
  | digIdentE
  /-- decimal number (also `.D+…`), by its last part -/
  | num (k : NumEnd)
  | hex (k : HexEnd)
  | bin
  | oct
  /-- operator / punctuation, by its spelling -/
  | op (sp : Bytes)
  /-- `'…'`, `"…"`, `` `…` ``: closed by the quote `q`, which doubles -/
  | quoted (q : Nat)
  /-- `{…}`, `‘…’`, `“…”` -/
  | closed
  | atSign
  | atAt
deriving DecidableEq, Repr

/-- `stopOk c f`: a token of class `c` ends in front of the rune `f` (`0` = end of input), and `f` is all the lexer
looks at beyond the token. -/
def stopOk : Cls → Nat → Bool
  | .ident xb, f => !isIdentChar f && (!xb || f != 39)
  | .identLike, f => !isIdentChar f
  | .digIdentE, f => !isIdentChar f && f != 43 && f != 45
  | .num k, f => numStop k f
  | .hex k, f => hexStop k f
  | .bin, f => f != 48 && f != 49 && f != 95
  | .oct, f => !(decide (48 ≤ f) && decide (f ≤ 55)) && f != 95
  | .op sp, f => opStop sp f
  | .quoted q, f => f != q
  | .closed, _ => true
  | .atSign, f => f != 64
  | .atAt, f => !isIdentStart f && !isDigit f

/-- is the digit-initial identifier `D+e` / `D+E`? -/
def isBareE (r0 : Nat) (rs : List Nat) : Bool := rs.isEmpty && (r0 == 101 || r0 == 69)

/-- the token classes of `WsTok`, each with its class descriptor. First component: the token's text; second: its
`(kind, value, quoted)`. -/
inductive AdjTok : Bytes → (Nat × Bytes × Bool) → Cls → Prop
  | ident {body : Bytes} {r0 : Nat} {rs : List Nat} : Spells body (r0 :: rs) → isIdentStart r0 = true →
      (∀ r ∈ r0 :: rs, isIdentChar r = true) →
      AdjTok body (lookupIdent (enc (r0 :: rs)), enc (r0 :: rs), false) (.ident (isXB r0 rs))
  | op {e : Bytes × Nat} : e ∈ opTable → AdjTok e.1 (e.2, e.1, false) (.op e.1)
  | str {body val : Bytes} : QBody false 39 [39] body val → AdjTok (39 :: body ++ [39]) (tSTRING, val, false) (.quoted 39)
  | dquote {body val : Bytes} : DBody body val → AdjTok (34 :: body ++ [34]) (tIDENT, val, true) (.quoted 34)
  | backtick {body val : Bytes} : QBody true 96 [96] body val →
      AdjTok (96 :: body ++ [96]) (tIDENT, val, false) (.quoted 96)
  | param {body : Bytes} {rs : List Nat} : Spells body rs → (∀ x ∈ rs, x ≠ 125) →
      AdjTok (123 :: body ++ [125]) (tPARAM, enc rs, false) .closed
  | ustring {op qb body : Bytes} {o : Nat} {rs : List Nat} : Dec op o → (o = 0x2018 ∨ o = 0x2019) → Dec qb 0x2019 →
      Spells body rs → (∀ x ∈ rs, x ≠ 0x2019) → AdjTok (op ++ body ++ qb) (tSTRING, enc rs, false) .closed
  | uquoted {op qb body : Bytes} {o : Nat} {rs : List Nat} : Dec op o → (o = 0x201C ∨ o = 0x201D) → Dec qb 0x201D →
      Spells body rs → (∀ x ∈ rs, x ≠ 0x201D) → AdjTok (op ++ body ++ qb) (tIDENT, enc rs, true) .closed
  | atSign : AdjTok [64] (tIDENT, [64], false) .atSign
  | atAt : AdjTok [64, 64] (tIDENT, [64, 64], false) .atAt
  | atname {body : Bytes} {r0 : Nat} {rs : List Nat} : Spells body (r0 :: rs) → (isIdentStart r0 || isDigit r0) = true →
      (∀ x ∈ r0 :: rs, isIdentChar x = true) →
      AdjTok (64 :: 64 :: body) (tIDENT, 64 :: 64 :: enc (r0 :: rs), false) .identLike
  | dec {ds g gv fe fv : Bytes} {k : NumEnd} : ds ≠ [] → Digs ds → UsGroups g gv → NumShape g fe fv k →
      AdjTok (ds ++ g ++ fe) (tNUMBER, ds ++ gv ++ fv, false) (.num k)
  | hex {c : UInt8} {h fr ex : Bytes} {k : HexEnd} : (c = 120 ∨ c = 88) → (∀ b ∈ h, HexB b ∨ b = 95) →
      HexShape fr ex k → AdjTok (48 :: c :: (h ++ fr ++ ex)) (tNUMBER, 48 :: c :: (h ++ fr ++ ex), false) (.hex k)
  | bin {c d : UInt8} {bs : Bytes} : (c = 98 ∨ c = 66) → (d = 48 ∨ d = 49) → (∀ b ∈ bs, b = 48 ∨ b = 49 ∨ b = 95) →
      AdjTok (48 :: c :: d :: bs) (tNUMBER, 48 :: c :: d :: bs, false) .bin
  | oct {c : UInt8} {os : Bytes} : (c = 111 ∨ c = 79) → (∀ b ∈ os, (48 ≤ b.toNat ∧ b.toNat ≤ 55) ∨ b = 95) →
      AdjTok (48 :: c :: os) (tNUMBER, 48 :: c :: os, false) .oct
  | dotnum {ds e ev : Bytes} {k : NumEnd} : ds ≠ [] → Digs ds → ds.length ≤ 28 → DotShape e ev k →
      AdjTok (46 :: ds ++ e) (tNUMBER, 46 :: ds ++ ev, false) (.num k)
  | digIdentUs {ds body : Bytes} {r0 : Nat} {rs : List Nat} : ds ≠ [] → Digs ds → Spells body (r0 :: rs) → r0 < 128 →
      (isLetter r0 = true ∨ r0 = 95) → (∀ x ∈ r0 :: rs, isIdentChar x = true) →
      AdjTok (ds ++ 95 :: body) (tIDENT, ds ++ 95 :: enc (r0 :: rs), false) .identLike
  | digIdent {ds body : Bytes} {r0 : Nat} {rs : List Nat} : ds ≠ [] → Digs ds → Spells body (r0 :: rs) →
      isLetter r0 = true → ((r0 = 101 ∨ r0 = 69) → ∀ r1 rs', rs = r1 :: rs' → ¬(48 ≤ r1 ∧ r1 ≤ 57)) →
      (ds = [48] → r0 ≠ 120 ∧ r0 ≠ 88 ∧ r0 ≠ 98 ∧ r0 ≠ 66 ∧ r0 ≠ 111 ∧ r0 ≠ 79) →
      (∀ x ∈ r0 :: rs, isIdentChar x = true) →
      AdjTok (ds ++ body) (tIDENT, ds ++ enc (r0 :: rs), false) (if isBareE r0 rs then .digIdentE else .identLike)
  | dollarDigit {body : Bytes} {rs : List Nat} : Spells body rs → (∀ r0 rs', rs = r0 :: rs' → isDigit r0 = true) →
      (∀ x ∈ rs, isIdentChar x = true) → AdjTok (36 :: body) (tIDENT, 36 :: enc rs, false) .identLike
  | dollarName {body : Bytes} {r0 : Nat} {rs : List Nat} : Spells body (r0 :: rs) → (isLetter r0 = true ∨ r0 = 95) →
      (∀ x ∈ r0 :: rs, isTagChar x = true) → body.length ≤ 4092 →
      AdjTok (36 :: body) (tIDENT, 36 :: enc (r0 :: rs), false) .identLike

theorem AdjTok.ne_eof {t : Bytes} {T : Nat × Bytes × Bool} {c : Cls} (h : AdjTok t T c) : T.1 ≠ tEOF := by
  cases h with
  | ident => exact lookupIdent_ne_eof _
  | op hm => exact opTable_ne_eof _ hm
  | _ => first
    | exact (by decide : tSTRING ≠ tEOF)
    | exact (by decide : tIDENT ≠ tEOF)
    | exact (by decide : tPARAM ≠ tEOF)
    | exact (by decide : tNUMBER ≠ tEOF)

/-- LOOK-AHEAD LOCALITY, all classes at once: a token of class `c` followed by ANY bytes `tail` whose first rune is
in the stop class of `c` is lexed to its `(kind, value, quoted)`, and the lexer then stands on the first rune of
`tail`. Nothing of `tail` but its first rune matters. -/
theorem AdjTok.ends_at_stop {t : Bytes} {T : Nat × Bytes × Bool} {c : Cls} (h : AdjTok t T c) (tail : Bytes)
    (hstop : stopOk c (firstRune tail) = true) {s : LState} (hs : Ent s (t ++ tail)) :
    (nextToken s).1.kvq = T ∧ Ent (nextToken s).2 tail := by
  cases h with
  | ident hb h0 hall =>
    simp only [stopOk, Bool.and_eq_true, Bool.not_eq_true', Bool.or_eq_true, bne_iff_ne, ne_eq] at hstop
    exact ident_ends_at_stop hb h0 hall tail hstop.1
      (fun hx => hstop.2.resolve_left (by rw [hx]; decide)) hs
  | op hm => exact op_ends_at_stop _ hm tail hstop hs
  | str hb =>
    simp only [stopOk, bne_iff_ne, ne_eq] at hstop
    exact string_tok_esc hb tail hstop (by simpa using hs)
  | dquote hb =>
    simp only [stopOk, bne_iff_ne, ne_eq] at hstop
    exact dquote_tok_esc hb tail hstop (by simpa using hs)
  | backtick hb =>
    simp only [stopOk, bne_iff_ne, ne_eq] at hstop
    exact backtick_tok_esc hb tail hstop (by simpa using hs)
  | param hb hno => exact param_tok hb hno tail hs
  | ustring ho ho' hq hb hno => exact ustring_tok ho ho' hq hb hno tail hs
  | uquoted ho ho' hq hb hno => exact uquoted_tok ho ho' hq hb hno tail hs
  | atSign =>
    simp only [stopOk, bne_iff_ne, ne_eq] at hstop
    exact at_ends_at_stop tail hstop hs
  | atAt =>
    simp only [stopOk, Bool.and_eq_true, Bool.not_eq_true'] at hstop
    exact atat_ends_at_stop tail hstop.1 hstop.2 hs
  | atname hb h0 hall =>
    simp only [stopOk, Bool.not_eq_true'] at hstop
    exact atname_ends_at_stop hb h0 hall tail hstop hs
  | dec hne hd hg hf => exact dec_ends_at_stop hne hd hg hf tail hstop hs
  | hex hc hh hsh => exact hex_ends_at_stop hc hh hsh tail hstop hs
  | bin hc hd hbs =>
    simp only [stopOk, Bool.and_eq_true, bne_iff_ne, ne_eq] at hstop
    exact bin_ends_at_stop hc hd hbs tail ⟨hstop.1.1, hstop.1.2, hstop.2⟩ hs
  | oct hc hos =>
    simp only [stopOk, Bool.and_eq_true, Bool.not_eq_true', Bool.and_eq_false_iff, decide_eq_false_iff_not,
      bne_iff_ne, ne_eq] at hstop
    exact oct_ends_at_stop hc hos tail ⟨by omega, hstop.2⟩ hs
  | dotnum hne hd hn he => exact dotnum_ends_at_stop hne hd hn he tail hstop hs
  | digIdentUs hne hd hb hlt h0 hall =>
    simp only [stopOk, Bool.not_eq_true'] at hstop
    exact digIdentUs_ends_at_stop hne hd hb hlt h0 hall tail hstop hs
  | @digIdent ds body r0 rs hne hd hb h0 hexp hbase hall =>
    by_cases hE : isBareE r0 rs = true
    · rw [if_pos hE] at hstop
      simp only [stopOk, Bool.and_eq_true, Bool.not_eq_true', bne_iff_ne, ne_eq] at hstop
      exact digIdent_ends_at_stop hne hd hb h0 hexp hbase hall tail hstop.1.1 (fun _ _ => ⟨hstop.1.2, hstop.2⟩) hs
    · rw [if_neg hE] at hstop
      simp only [stopOk, Bool.not_eq_true'] at hstop
      refine digIdent_ends_at_stop hne hd hb h0 hexp hbase hall tail hstop (fun h1 h2 => ?_) hs
      exfalso; apply hE
      unfold isBareE
      rcases h1 with h | h <;> simp [h, h2]
  | dollarDigit hb h0 hall =>
    simp only [stopOk, Bool.not_eq_true'] at hstop
    exact dollarDigit_ends_at_stop hb h0 hall tail hstop hs
  | dollarName hb h0 hall hlen =>
    simp only [stopOk, Bool.not_eq_true'] at hstop
    exact dollarName_ends_at_stop hb h0 hall hlen tail hstop hs

/-! ### white-space runes are stop runes of every class -/

theorem opStop_ws (sp : Bytes) {f : Nat} (hf : isWs f = true) : opStop sp f = true := by
  have h5 := ws_ascii_or_high hf
  have hd := isDigit_peekOf (ws_inert hf).2.2.1
  unfold opStop
  repeat' split
  all_goals first
    | rfl
    | (simp only [Bool.and_eq_true, bne_iff_ne, ne_eq]; omega)
    | (rw [hd]; rfl)

theorem AdjTok.stopOk_ws {t : Bytes} {T : Nat × Bytes × Bool} {c : Cls} (h : AdjTok t T c) {f : Nat}
    (hf : isWs f = true) : stopOk c f = true := by
  obtain ⟨h1, h2, h3, h4, h5⟩ := ws_inert hf
  have hx := ws_not_hex hf
  cases h with
  | op _ => exact opStop_ws _ hf
  | dec _ _ _ hsh =>
    cases hsh <;> simp [stopOk, numStop, h2, h3, isIdentStart_peekOf h4] <;> omega
  | dotnum _ _ _ hsh =>
    cases hsh <;> simp [stopOk, numStop, h2, h3] <;> omega
  | hex _ _ hsh =>
    cases hsh <;> simp [stopOk, hexStop, hx, h3] <;> omega
  | digIdent =>
    split <;> simp [stopOk, h1] <;> omega
  | _ => simp [stopOk, h1, h3, h4] <;> omega

/-- every class of `WsTok` is a class of `AdjTok`. -/
theorem WsTok.adj {t : Bytes} {T : Nat × Bytes × Bool} (h : WsTok t T) : ∃ c, AdjTok t T c := by
  cases h with
  | simple hs =>
    cases hs with
    | ident hb h0 hall => exact ⟨_, AdjTok.ident hb h0 hall⟩
    | @int ds hne hds =>
      have := AdjTok.dec (g := []) (gv := []) hne hds UsGroups.nil NumShape.int
      exact ⟨_, by simpa using this⟩
    | op hm => exact ⟨_, AdjTok.op hm⟩
  | str hb => exact ⟨_, AdjTok.str hb⟩
  | dquote hb => exact ⟨_, AdjTok.dquote hb⟩
  | backtick hb => exact ⟨_, AdjTok.backtick hb⟩
  | param hb hno => exact ⟨_, AdjTok.param hb hno⟩
  | ustring ho ho' hq hb hno => exact ⟨_, AdjTok.ustring ho ho' hq hb hno⟩
  | uquoted ho ho' hq hb hno => exact ⟨_, AdjTok.uquoted ho ho' hq hb hno⟩
  | «at» => exact ⟨_, AdjTok.atSign⟩
  | atat => exact ⟨_, AdjTok.atAt⟩
  | atname hb h0 hall => exact ⟨_, AdjTok.atname hb h0 hall⟩
  | @dec ds g gv fe fv hne hd hg hf =>
    cases hf with
    | none =>
      by_cases hgn : g = []
      · subst hgn; exact ⟨_, AdjTok.dec hne hd hg NumShape.int⟩
      · exact ⟨_, AdjTok.dec hne hd hg (NumShape.grp hgn)⟩
    | dot => exact ⟨_, AdjTok.dec hne hd hg NumShape.dot⟩
    | frac ht => exact ⟨_, AdjTok.dec hne hd hg (NumShape.frac ht)⟩
    | exp he => exact ⟨_, AdjTok.dec hne hd hg (NumShape.exp he)⟩
    | fracExp ht he => exact ⟨_, AdjTok.dec hne hd hg (NumShape.fracExp ht he)⟩
  | @hex c h fr ex hc hh hfr hex =>
    cases hex with
    | none =>
      cases hfr with
      | none => exact ⟨_, AdjTok.hex hc hh HexShape.digits⟩
      | some hall => exact ⟨_, AdjTok.hex hc hh (HexShape.frac hall)⟩
    | @some c' sg ds hc' hsg hds =>
      by_cases hb : sg = [] ∧ ds = []
      · obtain ⟨rfl, rfl⟩ := hb
        exact ⟨_, AdjTok.hex hc hh (HexShape.expBare hfr hc')⟩
      · refine ⟨_, AdjTok.hex hc hh (HexShape.exp hfr hc' hsg hds ?_)⟩
        by_cases h1 : sg = []
        · exact Or.inr (fun h2 => hb ⟨h1, h2⟩)
        · exact Or.inl h1
  | bin hc hd hbs => exact ⟨_, AdjTok.bin hc hd hbs⟩
  | oct hc hos => exact ⟨_, AdjTok.oct hc hos⟩
  | dotnum hne hd hn he =>
    cases he with
    | none => exact ⟨_, AdjTok.dotnum hne hd hn DotShape.none⟩
    | some he' => exact ⟨_, AdjTok.dotnum hne hd hn (DotShape.some he')⟩
  | digIdentUs hne hd hb hlt h0 hall => exact ⟨_, AdjTok.digIdentUs hne hd hb hlt h0 hall⟩
  | digIdent hne hd hb h0 hexp hbase hall => exact ⟨_, AdjTok.digIdent hne hd hb h0 hexp hbase hall⟩
  | dollarDigit hb h0 hall => exact ⟨_, AdjTok.dollarDigit hb h0 hall⟩
  | dollarName hb h0 hall hlen => exact ⟨_, AdjTok.dollarName hb h0 hall hlen⟩

/-! ## 10. gaps directly after a token, and the gap-exchange theorem for adjacent tokens -/

/-- `Compatible c f`: the rune `f` may directly follow a token of class `c` — it is a stop rune of the class and not
part of any multi-rune look-ahead of its scanner. Decidable. -/
def Compatible (c : Cls) (f : Nat) : Prop := stopOk c f = true

instance (c : Cls) (f : Nat) : Decidable (Compatible c f) := by unfold Compatible; infer_instance

/-- may a comment (`/*…`, `--…`, `#…`) directly follow a token of class `c`? False exactly for the operator `-`
(`---c` is one comment), for `D+e` (`1e--c`: the `-` is an exponent sign) and for `0x…p` (likewise). -/
def commentOk (c : Cls) : Bool := stopOk c 47 && stopOk c 45 && stopOk c 35

/-- a non-empty gap begins with a white-space rune, `/`, `-` or `#`. -/
theorem gap_first {g : Bytes} (hg : Gap g) (hne : g ≠ []) (rest : Bytes) :
    isWs (firstRune (g ++ rest)) = true ∨ firstRune (g ++ rest) = 47 ∨ firstRune (g ++ rest) = 45 ∨
      firstRune (g ++ rest) = 35 := by
  cases hg with
  | nil => exact absurd rfl hne
  | @cons i g' hi _ =>
    cases hi with
    | @ws p r hd hw =>
      rw [List.append_assoc, firstRune_dec hd]; exact Or.inl hw
    | dash _ _ =>
      simp only [List.cons_append]
      rw [firstRune_cons_ascii 45 _ (by decide)]; exact Or.inr (Or.inr (Or.inl rfl))
    | hash _ _ =>
      simp only [List.cons_append]
      rw [firstRune_cons_ascii 35 _ (by decide)]; exact Or.inr (Or.inr (Or.inr rfl))
    | block _ _ =>
      simp only [List.cons_append]
      rw [firstRune_cons_ascii 47 _ (by decide)]; exact Or.inr (Or.inl rfl)

/-- COMMENT-INITIAL GAPS: for a class that allows comment openers, the first rune of any non-empty gap is a stop
rune. -/
theorem AdjTok.stopOk_gap {t : Bytes} {T : Nat × Bytes × Bool} {c : Cls} (h : AdjTok t T c)
    (hc : commentOk c = true) {g : Bytes} (hg : Gap g) (hne : g ≠ []) (rest : Bytes) :
    stopOk c (firstRune (g ++ rest)) = true := by
  unfold commentOk at hc
  simp only [Bool.and_eq_true] at hc
  rcases gap_first hg hne rest with hf | hf | hf | hf
  · exact h.stopOk_ws hf
  · rw [hf]; exact hc.1.1
  · rw [hf]; exact hc.1.2
  · rw [hf]; exact hc.2

/-- the first rune of a gap that begins with white space. -/
theorem WsGap.first {g : Bytes} (h : WsGap g) (rest : Bytes) : isWs (firstRune (g ++ rest)) = true := by
  obtain ⟨w, r, g', rfl, hw, hr, _⟩ := h
  rw [List.append_assoc, firstRune_dec hw]; exact hr

/-- a token followed by ANY gap — empty, beginning with a comment, or beginning with white space — whose first rune
(the first rune of what follows, if the gap is empty) is compatible with the token's class: the parser sees the token,
then what it sees from `rest`. -/
theorem adjTok_then_gap {t : Bytes} {T : Nat × Bytes × Bool} {c : Cls} (ht : AdjTok t T c) {g : Bytes} (hg : Gap g)
    (rest : Bytes) (hok : Compatible c (firstRune (g ++ rest))) {s x : LState} (hs : Ent s (t ++ (g ++ rest)))
    (hx : Ent x rest) : pumpedFrom s = pumpOne T ++ pumpedFrom x := by
  obtain ⟨hk, he⟩ := ht.ends_at_stop (g ++ rest) hok hs
  rw [pumpedFrom_step hk ht.ne_eof, gap_trivia hg rest he hx]

/-- a token of a class that allows comment openers, followed by a non-empty gap (in particular one that begins with
`/*`, `--` or `#`): the gap is skipped like a white-space gap. -/
theorem adjTok_then_comment_gap {t : Bytes} {T : Nat × Bytes × Bool} {c : Cls} (ht : AdjTok t T c)
    (hc : commentOk c = true) {g : Bytes} (hg : Gap g) (hne : g ≠ []) (rest : Bytes) {s x : LState}
    (hs : Ent s (t ++ (g ++ rest))) (hx : Ent x rest) : pumpedFrom s = pumpOne T ++ pumpedFrom x :=
  adjTok_then_gap ht hg rest (ht.stopOk_gap hc hg hne rest) hs hx

/-- two texts with the same tokens and different layout, ADJACENT TOKENS ALLOWED: built from a common tail by
prefixing, in lock step, the same token followed by arbitrary — possibly empty, possibly comment-initial, possibly
different — gaps, under the one side condition that in each text the rune that directly follows the token (the first
rune of the gap, or of the next token if the gap is empty) is compatible with the token's class. -/
inductive SameToksAdj : Bytes → Bytes → Prop
  | tail (rest : Bytes) : SameToksAdj rest rest
  | tok {t : Bytes} {T : Nat × Bytes × Bool} {c : Cls} {g₁ g₂ a b : Bytes} :
      AdjTok t T c → Gap g₁ → Gap g₂ → Compatible c (firstRune (g₁ ++ a)) → Compatible c (firstRune (g₂ ++ b)) →
      SameToksAdj a b → SameToksAdj (t ++ (g₁ ++ a)) (t ++ (g₂ ++ b))
  | gap {g₁ g₂ a b : Bytes} : Gap g₁ → Gap g₂ → SameToksAdj a b → SameToksAdj (g₁ ++ a) (g₂ ++ b)

theorem SameToksAdj.pumped {a b : Bytes} (h : SameToksAdj a b) :
    ∀ {s₁ s₂ : LState}, Ent s₁ a → Ent s₂ b → pumpedFrom s₁ = pumpedFrom s₂ := by
  induction h with
  | tail rest => intro s₁ s₂ e₁ e₂; exact pumpedFrom_core (e₁.coreEq e₂)
  | @tok t T c g₁ g₂ a b ht h₁ h₂ c₁ c₂ _ ih =>
    intro s₁ s₂ e₁ e₂
    rw [adjTok_then_gap ht h₁ a c₁ e₁ (ent_stateAt a), adjTok_then_gap ht h₂ b c₂ e₂ (ent_stateAt b),
      ih (ent_stateAt a) (ent_stateAt b)]
  | @gap g₁ g₂ a b h₁ h₂ _ ih =>
    intro s₁ s₂ e₁ e₂
    rw [gap_trivia h₁ a e₁ (ent_stateAt a), gap_trivia h₂ b e₂ (ent_stateAt b), ih (ent_stateAt a) (ent_stateAt b)]

/-- the side condition in the form "the NEXT TOKEN's first rune is compatible, and the class allows comment openers":
then the two gaps are completely arbitrary (empty, comment-initial, white-space-initial, in any combination). -/
theorem SameToksAdj.tok_next {t : Bytes} {T : Nat × Bytes × Bool} {c : Cls} {g₁ g₂ a b : Bytes}
    (ht : AdjTok t T c) (h₁ : Gap g₁) (h₂ : Gap g₂) (hc : commentOk c = true)
    (ca : Compatible c (firstRune a)) (cb : Compatible c (firstRune b)) (h : SameToksAdj a b) :
    SameToksAdj (t ++ (g₁ ++ a)) (t ++ (g₂ ++ b)) := by
  have k : ∀ {g x : Bytes}, Gap g → Compatible c (firstRune x) → Compatible c (firstRune (g ++ x)) := by
    intro g x hg hx
    by_cases hne : g = []
    · subst hne; exact hx
    · exact ht.stopOk_gap hc hg hne x
  exact SameToksAdj.tok ht h₁ h₂ (k h₁ ca) (k h₂ cb) h

/-- gaps that begin with white space need no side condition at all. -/
theorem SameToksAdj.tok_ws {t : Bytes} {T : Nat × Bytes × Bool} {c : Cls} {g₁ g₂ a b : Bytes}
    (ht : AdjTok t T c) (h₁ : WsGap g₁) (h₂ : WsGap g₂) (h : SameToksAdj a b) :
    SameToksAdj (t ++ (g₁ ++ a)) (t ++ (g₂ ++ b)) :=
  SameToksAdj.tok ht h₁.gap h₂.gap (ht.stopOk_ws (h₁.first a)) (ht.stopOk_ws (h₂.first b)) h

/-- `SameToks` (every token followed by a gap that begins with white space) is the special case. -/
theorem SameToks.adj {a b : Bytes} (h : SameToks a b) : SameToksAdj a b := by
  induction h with
  | tail rest => exact SameToksAdj.tail rest
  | tok ht h₁ h₂ _ ih =>
    obtain ⟨c, hc⟩ := ht.adj
    exact SameToksAdj.tok_ws hc h₁ h₂ ih
  | gap h₁ h₂ _ ih => exact SameToksAdj.gap h₁ h₂ ih

theorem opTable_commentOk : ∀ e ∈ opTable, commentOk (.op e.1) = false → e.1 = [45] := by decide

/-- the classes that do not allow a comment directly after the token are exactly: the operator `-`, `D+e` / `D+E`, and
`0x…p`. -/
theorem AdjTok.commentOk_fails {t : Bytes} {T : Nat × Bytes × Bool} {c : Cls} (h : AdjTok t T c)
    (hc : commentOk c = false) : c = .op [45] ∨ c = .digIdentE ∨ c = .hex .expBare := by
  cases h with
  | @ident body r0 rs _ _ _ => exfalso; revert hc; cases isXB r0 rs <;> decide
  | op hm => exact Or.inl (by rw [opTable_commentOk _ hm hc])
  | dec _ _ _ hsh => exfalso; revert hc; cases hsh <;> decide
  | dotnum _ _ _ hsh => exfalso; revert hc; cases hsh <;> decide
  | hex _ _ hsh =>
    cases hsh with
    | expBare _ _ => exact Or.inr (Or.inr rfl)
    | _ => exfalso; revert hc; decide
  | @digIdent ds body r0 rs _ _ _ _ _ _ _ =>
    by_cases hE : isBareE r0 rs = true
    · rw [if_pos hE]; exact Or.inr (Or.inl rfl)
    · exfalso; rw [if_neg hE] at hc; revert hc; decide
  | _ => exfalso; revert hc; decide

end DC.Lexer
