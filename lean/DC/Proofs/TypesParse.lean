import DC.Proofs.TypesBasic
import DC.Proofs.TypesNum

/-! C18: parsing the tokens of a well-formed type yields its tree (`astOf`), for any sufficient fuel and any
continuation that cannot be mistaken for a part of the type. -/
namespace DC.Types
open DC.Gen.Tokens

/-! ## the tree of a type -/

def numExpr (neg : Bool) (n : Nat) : Expr := if neg then .neg (.litInt n) else .litInt n

mutual
def astOf : Ty → DT
  | .mk ws args => .mk (joinWords ws) (!args.isEmpty) (astArgs args)
def astArg : Arg → Param
  | .ty t => if listed t.head then .dt (astOf t) else .expr (.ident t.head)
  | .named n t => .ntp n (astOf t)
  | .num neg n => .expr (numExpr neg n)
  | .str s => .expr (.litStr s)
  | .enum s neg n => .expr (.bin [61] (.litStr s) (numExpr neg n))
def astArgs : List Arg → List Param
  | [] => []
  | a :: as => astArg a :: astArgs as
end

mutual
def cost : Ty → Nat
  | .mk _ args => 1 + costArgs args
def costArg : Arg → Nat
  | .ty t => 1 + cost t
  | .named _ t => 1 + cost t
  | .num _ _ => 1
  | .str _ => 1
  | .enum _ _ _ => 1
def costArgs : List Arg → Nat
  | [] => 0
  | a :: as => 1 + costArg a + costArgs as
end

/-! ## what may follow a type -/

def modifierWord (u : Bytes) : Bool :=
  u == B "UNSIGNED" || u == B "SIGNED" || u == B "PRECISION" || u == B "VARYING" || u == B "LARGE" || u == B "CHAR" || u == B "CHARACTER"

/-- a token that, standing after a type name, is not taken for a part of it: not `(`, and not one of the
words the multi-word SQL names continue with. -/
def safeFollow (t : Tok) : Bool := t.kind != tLPAREN && !(isWord t && modifierWord (upper t.val))

@[simp] theorem wordTok_val (w : Bytes) : (wordTok w).val = w := rfl
@[simp] theorem wordTok_kind (w : Bytes) : (wordTok w).kind = wordKind w := rfl
@[simp] theorem cur_cons (t : Tok) (ts : List Tok) : cur (t :: ts) = t := rfl
@[simp] theorem cur_nil : cur [] = eofTok := rfl
@[simp] theorem adv_cons (t : Tok) (ts : List Tok) : adv (t :: ts) = ts := rfl
@[simp] theorem peek_cons (t : Tok) (ts : List Tok) : peek (t :: ts) = cur ts := by cases ts <;> rfl

set_option maxRecDepth 100000 in
theorem fixed_tok_facts :
    isWord commaTok = false ∧ isWord rparenTok = false ∧ isWord lparenTok = false ∧ isWord eofTok = false ∧
    safeFollow commaTok = true ∧ safeFollow rparenTok = true ∧ safeFollow eofTok = true := by decide

theorem varyingOrLarge_noword (st : Bytes × List Tok) (h : isWord (cur st.2) = false) : varyingOrLarge st = st := by
  simp [varyingOrLarge, h]

theorem nameSuffix_noword (w : Bytes) (ts : List Tok) (h : isWord (cur ts) = false)
    (hl : (cur ts).kind = tLPAREN → isMySQLIntType (upper w) = false) : nameSuffix w ts = .ok w ts := by
  by_cases hk : (cur ts).kind = tLPAREN
  · simp [nameSuffix, hl hk, h, varyingOrLarge_noword]
  · simp [nameSuffix, hk, h, varyingOrLarge_noword]

theorem nameSuffix_safe (w : Bytes) (ts : List Tok) (h : safeFollow (cur ts) = true) : nameSuffix w ts = .ok w ts := by
  simp only [safeFollow, Bool.and_eq_true, bne_iff_ne, ne_eq, Bool.not_eq_true', Bool.and_eq_false_iff] at h
  obtain ⟨hk, hm⟩ := h
  by_cases hw : isWord (cur ts) = true
  · have hm' : modifierWord (upper (cur ts).val) = false := by
      rcases hm with h | h
      · rw [hw] at h; cases h
      · exact h
    simp only [modifierWord, Bool.or_eq_false_iff] at hm'
    obtain ⟨⟨⟨⟨⟨⟨m1, m2⟩, m3⟩, m4⟩, m5⟩, m6⟩, m7⟩ := hm'
    simp [nameSuffix, hk, varyingOrLarge, m1, m2, m3, m4, m5, m6, m7]
  · exact nameSuffix_noword w ts (by simpa using hw) (fun e => absurd e hk)


/-! ## named-parameter detection -/

theorem isDataTypeName_eq_listed (w : Bytes) : isDataTypeName w = listed w := rfl
theorem isMySQLIntType_eq (u : Bytes) : isMySQLIntType u = mysqlInt u := rfl
theorem tCOLLATE_eq : tCOLLATE = tCOLLATEk := rfl

theorem detectNamed_false_of_unnamed (ts : List Tok) : detectNamed false ts = false := by simp [detectNamed]

theorem detectNamed_false_of_noword (b : Bool) (ts : List Tok) (h : isWord (cur ts) = false) : detectNamed b ts = false := by
  simp [detectNamed, h]

theorem detectNamed_false_of_listed (b : Bool) (ts : List Tok) (h : listed (cur ts).val = true) (hp : (peek ts).kind ≠ tIDENT) :
    detectNamed b ts = false := by
  simp [detectNamed, isDataTypeName_eq_listed, h, hp]

theorem detectNamed_true (ts : List Tok) (hw : isWord (cur ts) = true)
    (h : (listed (cur ts).val = false ∧ (peek ts).kind ≠ tEQ) ∨ ((peek ts).kind = tIDENT ∧ listed (peek ts).val = true)) :
    detectNamed true ts = true := by
  rcases h with ⟨h1, h2⟩ | ⟨h1, h2⟩
  · simp [detectNamed, isDataTypeName_eq_listed, hw, h1, h2]
  · have hne : ¬ tIDENT = tEQ := by decide
    have : (peek ts).kind ≠ tEQ := by rw [h1]; exact hne
    by_cases hl : listed (cur ts).val = true
    · simp [detectNamed, isDataTypeName_eq_listed, hw, hl, h1, h2, hne]
    · simp [detectNamed, isDataTypeName_eq_listed, hw, hl, this]

/-! ## shape of the tokens of a well-formed type -/

theorem wfTy_words (t : Ty) (h : wfTy t = true) : t.words = [t.head] := by
  match t with
  | .mk ws args =>
    unfold wfTy at h
    split at h
    · simp [Ty.words, Ty.head]
    · cases h


theorem tokens_mk_nil (w : Bytes) : tokens (.mk [w] []) = [wordTok w] := by simp [tokens]
theorem tokens_mk_cons (w : Bytes) (a : Arg) (as : List Arg) :
    tokens (.mk [w] (a :: as)) = wordTok w :: lparenTok :: (argTokens a ++ tailTokens as ++ [rparenTok]) := by
  simp [tokens]

/-- what follows an argument: a comma or the closing parenthesis -/
def ArgFollow (R : List Tok) : Prop := cur R = commaTok ∨ cur R = rparenTok

theorem argFollow_tail (as : List Arg) (rest : List Tok) : ArgFollow (tailTokens as ++ rparenTok :: rest) := by
  cases as with
  | nil => right; simp [tailTokens]
  | cons b bs => left; simp [tailTokens]

theorem ArgFollow.safe {R : List Tok} (h : ArgFollow R) : safeFollow (cur R) = true := by
  rcases h with h | h <;> rw [h] <;> simp [fixed_tok_facts]

theorem ArgFollow.noword {R : List Tok} (h : ArgFollow R) : isWord (cur R) = false := by
  rcases h with h | h <;> rw [h] <;> simp [fixed_tok_facts]

theorem fixed_prec_facts :
    (commaTok.kind == tNUMBER) = false ∧ (commaTok.kind == tNOT) = false ∧ precedence commaTok.kind = LOWEST ∧
    (rparenTok.kind == tNUMBER) = false ∧ (rparenTok.kind == tNOT) = false ∧ precedence rparenTok.kind = LOWEST := by decide

theorem ArgFollow.prec {R : List Tok} (h : ArgFollow R) : precCur R = LOWEST := by
  rcases h with h | h <;> simp [precCur, h, fixed_prec_facts]

theorem ArgFollow.kind {R : List Tok} (h : ArgFollow R) : (cur R).kind = tCOMMA ∨ (cur R).kind = tRPAREN := by
  rcases h with h | h <;> rw [h] <;> simp [commaTok, rparenTok]


/-! ## expression arguments -/

theorem kind_consts :
    (tNUMBER == tNUMBER) = true ∧ (tSTRING == tNUMBER) = false ∧ (tSTRING == tSTRING) = true ∧
    (tMINUS == tNUMBER) = false ∧ (tMINUS == tSTRING) = false ∧ (tMINUS == tIDENT) = false ∧ (tMINUS == tMINUS) = true ∧
    (tIDENT == tNUMBER) = false ∧ (tIDENT == tSTRING) = false ∧ (tNUMBER == tINF) = false ∧
    (tCOMMA == tCOLONCOLON) = false ∧ (tRPAREN == tCOLONCOLON) = false ∧
    (tCOMMA == tSTRING) = false ∧ (tRPAREN == tSTRING) = false ∧ (tCOMMA == tLPAREN) = false ∧ (tRPAREN == tLPAREN) = false ∧
    (tCOMMA == tDOT) = false ∧ (tRPAREN == tDOT) = false ∧ (tEQ == tNUMBER) = false ∧ (tEQ == tNOT) = false ∧
    precedence tEQ = COMPARE ∧ (tEQ == tEQ) = true ∧ (tNUMBER == tANY) = false ∧ (tNUMBER == tALL) = false ∧
    (tMINUS == tANY) = false ∧ (tMINUS == tALL) = false := by decide

theorem parseAtom_num (n : Nat) (h : n < 2 ^ 64) (R : List Tok) :
    parseAtom (⟨tNUMBER, decimal n⟩ :: R) = some (.litInt n, R) := by
  simp [parseAtom, parseNumberTok_decimal _ n h]

theorem parseAtom_str (s : Bytes) (R : List Tok) : parseAtom (⟨tSTRING, s⟩ :: R) = some (.litStr s, R) := by
  simp [parseAtom, kind_consts]

theorem parseAtom_neg (n : Nat) (h : n < 2 ^ 64) (R : List Tok) (hR : ArgFollow R) :
    parseAtom (minusTok :: ⟨tNUMBER, decimal n⟩ :: R) = some (.neg (.litInt n), R) := by
  have hk : ((cur R).kind == tCOLONCOLON) = false := by
    rcases hR.kind with h | h <;> rw [h] <;> simp [kind_consts]
  have hp : precCur R ≤ UNARY := by rw [hR.prec]; decide
  simp [parseAtom, minusTok, kind_consts, parseNumberTok_decimal _ n h, hk, hp]

theorem parseAtom_numToks (neg : Bool) (n : Nat) (h : n < 2 ^ 64) (R : List Tok) (hR : ArgFollow R) :
    parseAtom (numToks neg n ++ R) = some (numExpr neg n, R) := by
  cases neg
  · simpa [numToks, numExpr] using parseAtom_num n h R
  · simpa [numToks, numExpr] using parseAtom_neg n h R hR

theorem identLike_not_atat (w : Bytes) (h : identLike w = true) : startsWithAtAt w = false := by
  cases w with
  | nil => simp [identLike] at h
  | cons b bs =>
    simp only [identLike, List.all_cons, Bool.and_eq_true] at h
    have hb : b ≠ 64 := by
      intro e; subst e; exact absurd h.2.1 (by decide)
    cases bs <;> simp [startsWithAtAt, hb]

theorem parseAtom_ident (w : Bytes) (hk : wordKind w = tIDENT) (hid : identLike w = true) (R : List Tok) (hR : ArgFollow R) :
    parseAtom (wordTok w :: R) = some (.ident w, R) := by
  have h1 : ((cur R).kind == tSTRING) = false := by rcases hR.kind with h | h <;> rw [h] <;> simp [kind_consts]
  have h2 : ((cur R).kind == tLPAREN) = false := by rcases hR.kind with h | h <;> rw [h] <;> simp [kind_consts]
  have h3 : ((cur R).kind == tDOT) = false := by rcases hR.kind with h | h <;> rw [h] <;> simp [kind_consts]
  simp [parseAtom, wordTok, hk, kind_consts, h1, h2, h3, identLike_not_atat w hid]

theorem parseArgExpr_atom (ts R : List Tok) (e : Expr) (h : parseAtom ts = some (e, R)) (hR : ArgFollow R) :
    parseArgExpr ts = some (e, R) := by
  simp [parseArgExpr, h, hR.prec]

theorem parseArgExpr_enum (s : Bytes) (neg : Bool) (n : Nat) (h : n < 2 ^ 64) (R : List Tok) (hR : ArgFollow R) :
    parseArgExpr (⟨tSTRING, s⟩ :: eqTok :: (numToks neg n ++ R)) = some (.bin [61] (.litStr s) (numExpr neg n), R) := by
  have hp : precCur (eqTok :: (numToks neg n ++ R)) = COMPARE := by
    simp [precCur, eqTok, kind_consts]
  have hc : ((cur (numToks neg n ++ R)).kind == tANY || (cur (numToks neg n ++ R)).kind == tALL) = false := by
    cases neg <;> simp [numToks, minusTok, kind_consts]
  have hne : (COMPARE == LOWEST) = false := by decide
  have hk : ((cur (eqTok :: (numToks neg n ++ R))).kind == tEQ) = true := by simp [eqTok]
  simp only [parseArgExpr, parseAtom_str, hp, hne, hk, hc, adv_cons, parseAtom_numToks neg n h R hR, hR.prec]
  simp [eqTok]


/-! ## one parameter -/

theorem tokens_shape (t : Ty) (h : wfTy t = true) (R : List Tok) :
    ∃ tl, tokens t ++ R = wordTok t.head :: tl ∧ (cur tl = cur R ∨ cur tl = lparenTok) := by
  match t with
  | .mk ws args =>
    have hws := wfTy_words _ h
    simp only [Ty.words, Ty.head] at hws
    cases args with
    | nil =>
      refine ⟨R, ?_, Or.inl rfl⟩
      rw [hws, tokens_mk_nil]; simp [Ty.head, Ty.words]
    | cons a as =>
      refine ⟨lparenTok :: (argTokens a ++ tailTokens as ++ [rparenTok]) ++ R, ?_, Or.inr rfl⟩
      rw [hws, tokens_mk_cons]; simp [Ty.head, Ty.words]

theorem not_word_kinds (v : Bytes) :
    isWord ⟨tNUMBER, v⟩ = false ∧ isWord ⟨tSTRING, v⟩ = false ∧ isWord minusTok = false := by
  have h1 : tNUMBER ≠ tIDENT := by decide
  have h2 : tSTRING ≠ tIDENT := by decide
  have h3 : minusTok.kind ≠ tIDENT := by decide
  exact ⟨isWord_of_kind _ not_keyword_fixed.2.2.2.2.2.1 h1, isWord_of_kind _ not_keyword_fixed.2.2.2.2.2.2.1 h2,
    isWord_of_kind _ not_keyword_fixed.2.2.2.2.2.2.2.1 h3⟩

theorem parseParam_expr (f : Nat) (named : Bool) (ts R : List Tok) (e : Expr) (hw : isWord (cur ts) = false)
    (h : parseArgExpr ts = some (e, R)) : parseParam (f + 1) named ts = .ok (some (.expr e)) R := by
  simp [parseParam, detectNamed_false_of_noword named ts hw, hw, h]

theorem parseParam_ident (f : Nat) (w : Bytes) (R : List Tok) (hl : listed w = false) (hk : wordKind w = tIDENT)
    (hid : identLike w = true) (hR : ArgFollow R) :
    parseParam (f + 1) false (wordTok w :: R) = .ok (some (.expr (.ident w))) R := by
  have h := parseArgExpr_atom _ R _ (parseAtom_ident w hk hid R hR) hR
  have hl' : isDataTypeName w = false := by simpa [isDataTypeName_eq_listed] using hl
  simp [parseParam, detectNamed_false_of_unnamed, hl', h]

theorem lparen_kind_ne_ident : lparenTok.kind ≠ tIDENT ∧ commaTok.kind ≠ tIDENT ∧ rparenTok.kind ≠ tIDENT := by decide

theorem parseParam_ty_listed (f : Nat) (named : Bool) (t : Ty) (R : List Tok) (hwf : wfTy t = true) (hl : listed t.head = true)
    (hR : ArgFollow R) (ih : parseDataType f (tokens t ++ R) = .ok (some (astOf t)) R) :
    parseParam (f + 1) named (tokens t ++ R) = .ok (some (.dt (astOf t))) R := by
  obtain ⟨tl, htl, hcur⟩ := tokens_shape t hwf R
  have hpk : (peek (tokens t ++ R)).kind ≠ tIDENT := by
    rw [htl, peek_cons]
    rcases hcur with h | h
    · rw [h]; rcases hR with h' | h' <;> rw [h'] <;> simp [lparen_kind_ne_ident]
    · rw [h]; exact lparen_kind_ne_ident.1
  have hc : cur (tokens t ++ R) = wordTok t.head := by rw [htl]; rfl
  have hd := detectNamed_false_of_listed named (tokens t ++ R) (by rw [hc]; exact hl) hpk
  have hl' : isDataTypeName (cur (tokens t ++ R)).val = true := by rw [hc]; exact hl
  have hw : isWord (cur (tokens t ++ R)) = true := by rw [hc]; simp
  simp [parseParam, hd, hl', hw, ih]

theorem parseParam_named (f : Nat) (n : Bytes) (t : Ty) (R : List Tok) (hwf : wfTy t = true)
    (hcond : listed n = true → wordKind t.head = tIDENT ∧ listed t.head = true)
    (ih : parseDataType f (tokens t ++ R) = .ok (some (astOf t)) R) :
    parseParam (f + 1) true (wordTok n :: (tokens t ++ R)) = .ok (some (.ntp n (astOf t))) R := by
  obtain ⟨tl, htl, _⟩ := tokens_shape t hwf R
  have hpk : peek (wordTok n :: (tokens t ++ R)) = wordTok t.head := by rw [peek_cons, htl]; rfl
  have hd : detectNamed true (wordTok n :: (tokens t ++ R)) = true := by
    apply detectNamed_true _ (by simp)
    rw [hpk]
    by_cases hl : listed n = true
    · right; exact ⟨(hcond hl).1, (hcond hl).2⟩
    · left
      refine ⟨by simpa [wordTok] using hl, ?_⟩
      exact wordKind_ne _ _ not_keyword_fixed.1 (by decide)
  simp only [parseParam, hd, if_true, adv_cons, ih, cur_cons]
  simp [wordTok]


/-! ## the loop guard on the first token of an argument -/

theorem const_kind_facts :
    tNUMBER ≠ tRPAREN ∧ tNUMBER ≠ tEOF ∧ tNUMBER ≠ tCOLLATE ∧ tSTRING ≠ tRPAREN ∧ tSTRING ≠ tEOF ∧ tSTRING ≠ tCOLLATE ∧
    tMINUS ≠ tRPAREN ∧ tMINUS ≠ tEOF ∧ tMINUS ≠ tCOLLATE ∧ tRPAREN ≠ tIDENT ∧ tEOF ≠ tIDENT := by decide

theorem wordKind_guard (w : Bytes) (hc : wordKind w ≠ tCOLLATEk) :
    ((wordKind w == tRPAREN || wordKind w == tEOF || wordKind w == tCOLLATE) = false) := by
  have h1 := wordKind_ne w tRPAREN not_keyword_fixed.2.2.1 const_kind_facts.2.2.2.2.2.2.2.2.2.1
  have h2 := wordKind_ne w tEOF not_keyword_fixed.2.2.2.2.1 const_kind_facts.2.2.2.2.2.2.2.2.2.2
  simp [h1, h2, tCOLLATE_eq, hc]

theorem arg_guard (named : Bool) (a : Arg) (hwf : wfArg named a = true) (R : List Tok) :
    (((cur (argTokens a ++ R)).kind == tRPAREN || (cur (argTokens a ++ R)).kind == tEOF ||
      (cur (argTokens a ++ R)).kind == tCOLLATE) = false) := by
  cases a with
  | ty t =>
    simp only [wfArg, Bool.and_eq_true, bne_iff_ne, ne_eq] at hwf
    obtain ⟨tl, htl, _⟩ := tokens_shape t hwf.1.1 R
    simp only [argTokens, htl, cur_cons, wordTok]
    exact wordKind_guard _ hwf.1.2
  | named n t =>
    simp only [wfArg, Bool.and_eq_true, bne_iff_ne, ne_eq] at hwf
    simp only [argTokens, List.cons_append, cur_cons, wordTok]
    exact wordKind_guard _ hwf.1.1.2
  | num neg n =>
    cases neg <;> simp [argTokens, numToks, minusTok, const_kind_facts]
  | str s => simp [argTokens, const_kind_facts]
  | enum s neg n => simp [argTokens, const_kind_facts]

/-! ## the main induction -/

theorem comma_rparen_kinds : (rparenTok.kind == tCOMMA) = false ∧ (commaTok.kind == tCOMMA) = true ∧ (rparenTok.kind == tRPAREN) = true ∧
    (lparenTok.kind == tLPAREN) = true ∧ lparenTok.kind = tLPAREN := by decide

mutual
theorem parse_ty (T : Ty) (hwf : wfTy T = true) (f : Nat) (rest : List Tok) (hf : cost T ≤ f)
    (hr : safeFollow (cur rest) = true) : parseDataType f (tokens T ++ rest) = .ok (some (astOf T)) rest := by
  match T with
  | .mk ws args =>
    have hws := wfTy_words _ hwf
    simp only [Ty.words, Ty.head] at hws
    generalize hw : ws.headD [] = w at hws
    subst hws
    match f with
    | 0 => simp [cost] at hf
    | f + 1 =>
    cases args with
    | nil =>
      have hk : ((cur rest).kind == tLPAREN) = false := by
        simp only [safeFollow, Bool.and_eq_true, bne_iff_ne, ne_eq] at hr
        simpa using hr.1
      simp only [tokens_mk_nil, List.cons_append, List.nil_append, parseDataType, cur_cons, isWord_wordTok, Bool.not_true,
        Bool.false_eq_true, if_false, adv_cons, wordTok_val, nameSuffix_safe w rest hr, hk]
      simp [astOf, joinWords, astArgs]
    | cons a as =>
      simp only [wfTy, Bool.and_eq_true, Bool.not_eq_true', bne_iff_ne, ne_eq] at hwf
      obtain ⟨hid, ⟨⟨hmy, hj⟩, ho⟩, hargs⟩ := hwf
      have hcost : costArgs (a :: as) ≤ f := by simp only [cost] at hf; omega
      have hps := parse_args (upper w == B "NESTED" || upper w == B "TUPLE") a as hargs f rest hcost
      have hns : nameSuffix w (lparenTok :: (argTokens a ++ tailTokens as ++ rparenTok :: rest)) =
          .ok w (lparenTok :: (argTokens a ++ tailTokens as ++ rparenTok :: rest)) :=
        nameSuffix_noword w _ (by simp [fixed_tok_facts]) (fun _ => by rw [isMySQLIntType_eq]; exact hmy)
      have hj' : (upper w == B "JSON") = false := by simpa using hj
      have ho' : (upper w == B "OBJECT") = false := by simpa using ho
      simp only [List.append_assoc] at hps hns
      simp only [tokens_mk_cons, List.cons_append, List.append_assoc, parseDataType, cur_cons, isWord_wordTok,
        Bool.not_true, Bool.false_eq_true, if_false, adv_cons, wordTok_val, List.nil_append]
      rw [hns]
      simp only [cur_cons, adv_cons, comma_rparen_kinds, if_true, hj', ho', Bool.or_self, Bool.false_eq_true, if_false, hps]
      simp [astOf, joinWords]
theorem parse_arg (named : Bool) (a : Arg) (hwf : wfArg named a = true) (f : Nat) (R : List Tok) (hf : costArg a ≤ f)
    (hR : ArgFollow R) : parseParam f named (argTokens a ++ R) = .ok (some (astArg a)) R := by
  match f with
  | 0 => cases a <;> simp [costArg] at hf
  | f + 1 =>
  match a with
  | .ty t =>
    simp only [wfArg, Bool.and_eq_true, bne_iff_ne, ne_eq] at hwf
    obtain ⟨⟨hwt, hcol⟩, hcond⟩ := hwf
    by_cases hl : listed t.head = true
    · have ih := parse_ty t hwt f R (by simp only [costArg] at hf; omega) hR.safe
      simpa [argTokens, astArg, hl] using parseParam_ty_listed f named t R hwt hl hR ih
    · simp only [hl, Bool.false_eq_true, if_false, Bool.and_eq_true, Bool.not_eq_true', List.isEmpty_iff, beq_iff_eq] at hcond
      obtain ⟨⟨hn, hargs⟩, hk⟩ := hcond
      subst hn
      match t with
      | .mk ws args =>
        have hws := wfTy_words _ hwt
        simp only [Ty.words, Ty.head, Ty.args] at hws hargs hk hl ⊢
        subst hargs
        generalize hw : ws.headD [] = w at hws hk hl
        subst hws
        have hid : identLike w = true := by
          simp only [wfTy, Bool.and_eq_true] at hwt; exact hwt.1
        simpa [argTokens, tokens_mk_nil, astArg, Ty.head, Ty.words, hl] using
          parseParam_ident f w R (by simpa using hl) hk hid hR
  | .named n t =>
    simp only [wfArg, Bool.and_eq_true, bne_iff_ne, ne_eq] at hwf
    obtain ⟨⟨⟨⟨hnm, hid⟩, hcol⟩, hwt⟩, hcond⟩ := hwf
    subst hnm
    have ih := parse_ty t hwt f R (by simp only [costArg] at hf; omega) hR.safe
    have hc : listed n = true → wordKind t.head = tIDENT ∧ listed t.head = true := by
      intro hl
      simpa [hl] using hcond
    simpa [argTokens, astArg] using parseParam_named f n t R hwt hc ih
  | .num neg n =>
    simp only [wfArg, decide_eq_true_eq] at hwf
    have hw : isWord (cur (numToks neg n ++ R)) = false := by
      cases neg <;> simp [numToks, (not_word_kinds []).2.2, (not_word_kinds (decimal n)).1]
    simpa [argTokens, astArg] using
      parseParam_expr f named _ R _ hw (parseArgExpr_atom _ R _ (parseAtom_numToks neg n hwf R hR) hR)
  | .str s =>
    simpa [argTokens, astArg] using
      parseParam_expr f named (⟨tSTRING, s⟩ :: R) R _ (by simp [(not_word_kinds s).2.1]) (parseArgExpr_atom _ R _ (parseAtom_str s R) hR)
  | .enum s neg n =>
    simp only [wfArg, decide_eq_true_eq] at hwf
    simpa [argTokens, astArg] using
      parseParam_expr f named (⟨tSTRING, s⟩ :: eqTok :: (numToks neg n ++ R)) R _ (by simp [(not_word_kinds s).2.1])
        (parseArgExpr_enum s neg n hwf R hR)
theorem parse_args (named : Bool) (a : Arg) (as : List Arg) (hwf : wfArgs named (a :: as) = true) (f : Nat) (rest : List Tok)
    (hf : costArgs (a :: as) ≤ f) :
    parseParams f named (argTokens a ++ tailTokens as ++ rparenTok :: rest) = .ok (astArgs (a :: as)) (rparenTok :: rest) := by
  match f with
  | 0 => simp [costArgs] at hf
  | f + 1 =>
    simp only [wfArgs, Bool.and_eq_true] at hwf
    obtain ⟨hwa, hwas⟩ := hwf
    simp only [costArgs] at hf
    have hg := arg_guard named a hwa (tailTokens as ++ rparenTok :: rest)
    have hone := parse_arg named a hwa f (tailTokens as ++ rparenTok :: rest) (by omega) (argFollow_tail as rest)
    simp only [List.append_assoc] at hg hone ⊢
    match as with
    | [] =>
      simp only [parseParams, hg, Bool.false_eq_true, if_false, hone]
      simp [tailTokens, comma_rparen_kinds, consParam, astArgs]
    | b :: bs =>
      have ih := parse_args named b bs hwas f rest (by simp only [costArgs] at hf ⊢; omega)
      simp only [List.append_assoc] at ih
      simp only [parseParams, hg, Bool.false_eq_true, if_false, hone]
      simp [tailTokens, comma_rparen_kinds, consParam, astArgs, ih]
end

end DC.Types
