import DC.Proofs.PrattTable

/-!
# C08: every well-parenthesised tree re-parses to itself (`pratt_roundtrip`)

Port of the prototype proof (design-probes/lean/PrattProof.lean) to the real model: fuel monotonicity of the three
mutually recursive parser functions, then one generalised lemma `parse_render` by induction on the tree.
The generated precedence numbers enter only through `T : tableWellOrdered genTable`.
-/
namespace DC.Proofs.Pratt
open DC.Gen DC.Model.Pratt DC.Spec.PrecSpec

/-! ## more fuel never changes a successful result -/

theorem mono (f : Nat) :
    (∀ p ts r, parseExpr f p ts = some r → parseExpr (f+1) p ts = some r) ∧
    (∀ p l ts r, infixLoop f p l ts = some r → infixLoop (f+1) p l ts = some r) ∧
    (∀ ts r, parsePrefix f ts = some r → parsePrefix (f+1) ts = some r) := by
  induction f with
  | zero => refine ⟨?_, ?_, ?_⟩ <;> intros <;> simp_all [parseExpr, infixLoop, parsePrefix]
  | succ f ih =>
    obtain ⟨ihE, ihL, ihP⟩ := ih
    refine ⟨?_, ?_, ?_⟩
    · intro p ts r h
      unfold parseExpr at h ⊢
      cases hp : parsePrefix f ts with
      | none => simp [hp] at h
      | some lr =>
        obtain ⟨l, rest⟩ := lr
        simp only [hp] at h
        simp only [ihP _ _ hp]
        exact ihL _ _ _ _ h
    · intro p l ts r h
      unfold infixLoop at h ⊢
      match ts, h with
      | [], h => simpa using h
      | t :: rest, h =>
        simp only at h ⊢
        by_cases hlt : p < precedenceForCurrent (t :: rest)
        · simp only [hlt, ite_true] at h ⊢
          match t, h with
          | .op o, h =>
            simp only at h ⊢
            cases he : parseExpr f (precedence o.kind) rest with
            | none => simp [he] at h
            | some rr =>
              obtain ⟨r', rest'⟩ := rr
              simp only [he] at h
              simp only [ihE _ _ _ he]
              exact ihL _ _ _ _ h
          | .not, h =>
            simp only at h ⊢
            match rest, h with
            | [], h => exact ihL _ _ _ _ h
            | .other k :: tl, h =>
              simp only at h ⊢
              by_cases hk : notInfixFollower k
              · simp [hk] at h
              · simp only [hk] at h ⊢
                exact ihL _ _ _ _ h
            | .ident _ :: tl, h => exact ihL _ _ _ _ h
            | .number _ :: tl, h => exact ihL _ _ _ _ h
            | .lparen :: tl, h => exact ihL _ _ _ _ h
            | .rparen :: tl, h => exact ihL _ _ _ _ h
            | .not :: tl, h => exact ihL _ _ _ _ h
            | .op _ :: tl, h => exact ihL _ _ _ _ h
          | .lparen, h => exact h
          | .ident _, h => exact h
          | .number _, h => exact h
          | .rparen, h => exact h
          | .other _, h => simp at h
        · simp only [hlt, ite_false] at h ⊢; exact h
    · intro ts r h
      unfold parsePrefix at h ⊢
      match ts, h with
      | [], h => simp at h
      | .ident _ :: _, h => exact h
      | .number _ :: _, h => exact h
      | .rparen :: _, h => simp at h
      | .other _ :: _, h => simp at h
      | .not :: rest, h =>
        simp only at h ⊢
        cases he : parseExpr f (notThreshold rest) rest with
        | none => simp [he] at h
        | some rr => simp only [he] at h; simp only [ihE _ _ _ he]; exact h
      | .lparen :: rest, h =>
        simp only at h ⊢
        by_cases hc : emptyTupleFollows rest
        · simp [hc] at h
        · simp only [hc] at h ⊢
          cases he : parseExpr f Prec.LOWEST rest with
          | none => simp [he] at h
          | some rr => simp only [he] at h; simp only [ihE _ _ _ he]; exact h
      | .op o :: rest, h =>
        cases o <;> first
          | (simp at h; done)
          | (simp only at h ⊢
             by_cases hc : castFollows rest
             · simp [hc] at h
             · simp only [hc] at h ⊢
               cases he : parseExpr f Prec.UNARY rest with
               | none => simp [he] at h
               | some rr => simp only [he] at h; simp only [ihE _ _ _ he]; exact h)

theorem mono_loop {f p l ts r} (k : Nat) (h : infixLoop f p l ts = some r) : infixLoop (f+k) p l ts = some r := by
  induction k with
  | zero => exact h
  | succ k ih => exact (mono (f+k)).2.1 _ _ _ _ ih

theorem mono_expr {f p ts r} (k : Nat) (h : parseExpr f p ts = some r) : parseExpr (f+k) p ts = some r := by
  induction k with
  | zero => exact h
  | succ k ih => exact (mono (f+k)).1 _ _ _ ih

theorem loop_fuel_pos {f p l ts r} (h : infixLoop f p l ts = some r) : ∃ f', f = f' + 1 := by
  cases f with
  | zero => simp [infixLoop] at h
  | succ f' => exact ⟨f', rfl⟩

/-! ## what can follow a rendered expression -/

/-- the token list after an expression starts with an operator of level `m`, or the expression ends there (`m = 0`) -/
inductive RestLevel : List Tok → Nat → Prop
  | nil : RestLevel [] 0
  | rparen (tl : List Tok) : RestLevel (.rparen :: tl) 0
  | op (o : BinOp) (tl : List Tok) : RestLevel (.op o :: tl) (level o)

theorem RestLevel.le {rest m} (h : RestLevel rest m) : m ≤ 7 := by
  cases h with
  | nil => omega
  | rparen => omega
  | op o tl => exact level_le o

theorem RestLevel.not_other {rest m} (h : RestLevel rest m) : ∀ k tl, rest ≠ .other k :: tl := by
  intro k tl; cases h <;> simp

theorem RestLevel.ident_stays {rest m} (h : RestLevel rest m) : identLeavesFragment rest = false := by
  cases h <;> rfl

/-- the loop `for precedence < precedenceForCurrent()` stops in front of an operator that does not bind tighter -/
theorem infixLoop_stop (T : tableWellOrdered genTable) {rest m} (hr : RestLevel rest m) (fuel ℓ : Nat) (l : Ast)
    (hm : m ≤ ℓ) (hℓ : ℓ ≤ 8) : infixLoop (fuel+1) (gen ℓ) l rest = some (l, rest) := by
  cases hr with
  | nil => simp [infixLoop]
  | rparen tl =>
    have : ¬ gen ℓ < precedence Tokens.tRPAREN := by
      rw [prec_rparen T]; exact Nat.not_lt.mpr (gen_le T (by omega) hℓ)
    simp [infixLoop, precedenceForCurrent, Tok.kind, this]
  | op o tl =>
    have : ¬ gen ℓ < precedence o.kind := by
      rw [prec_op T]; exact Nat.not_lt.mpr (gen_le T hm hℓ)
    simp [infixLoop, precedenceForCurrent, Tok.kind, this]

theorem castFollows_render (e : E) : ∀ rest, (∀ k tl, rest ≠ .other k :: tl) → castFollows (render e ++ rest) = false := by
  induction e with
  | id s => intro rest _; rfl
  | num n =>
    intro rest h
    cases rest with
    | nil => rfl
    | cons t tl =>
      cases t with
      | other k => exact absurd rfl (h k tl)
      | _ => rfl
  | neg e _ => intro rest _; rfl
  | not e _ => intro rest _; rfl
  | par e _ => intro rest _; rfl
  | bin o l r ihl _ =>
    intro rest _
    simp only [render, List.append_assoc, List.cons_append]
    exact ihl _ (by intro k tl; simp)

theorem emptyTupleFollows_render (e : E) : ∀ rest, emptyTupleFollows (render e ++ rest) = false := by
  induction e with
  | bin o l r ihl _ =>
    intro rest
    simp only [render, List.append_assoc, List.cons_append]
    exact ihl _
  | _ => intro rest; rfl

/-- `parseNot` looks at the first token of the operand: `(` or not -/
theorem notThreshold_render (e : E) : ∀ rest, notThreshold (render e ++ rest) = gen (notBind e) := by
  induction e with
  | bin o l r ihl _ =>
    intro rest
    simp only [render, List.append_assoc, List.cons_append]
    rw [ihl]
    rfl
  | par e _ => intro rest; rfl
  | _ => intro rest; rfl

theorem notBind_le (e : E) : notBind e ≤ 8 := by
  unfold notBind; split <;> decide

theorem topAbove_zero (e : E) : topAbove 0 e := by
  cases e with
  | bin o _ _ => exact level_pos o
  | _ => trivial

theorem openAtLeast_zero (e : E) : openAtLeast 0 e := by
  induction e with
  | neg e ih => exact ⟨Nat.zero_le _, ih⟩
  | not e ih => exact ⟨Nat.zero_le _, ih⟩
  | bin o l r _ ihr => exact ⟨Nat.zero_le _, ihr⟩
  | _ => trivial

theorem topAbove_of_atLeast {ℓ m : Nat} {e : E} (h : topAtLeast m e) (hlt : ℓ < m) : topAbove ℓ e := by
  cases e with
  | bin o _ _ => exact Nat.lt_of_lt_of_le hlt h
  | _ => trivial

/-- fuel that suffices for a tree -/
def cost : E → Nat
  | .id _ | .num _ => 1
  | .neg e | .not e | .par e => cost e + 2
  | .bin _ l r => cost l + cost r + 1

theorem cost_le (e : E) : cost e ≤ 2 * (render e).length := by
  induction e <;> simp [cost, render] <;> omega

/-! ## the generalised statement -/

theorem parse_render (T : tableWellOrdered genTable) (e : E) : WellPar e →
    ∀ (ℓ : Nat) (rest : List Tok) (m : Nat) (res : Ast × List Tok) (f : Nat),
      ℓ ≤ 8 → topAbove ℓ e → RestLevel rest m → openAtLeast m e →
      infixLoop f (gen ℓ) (erase e) rest = some res →
      parseExpr (f + cost e) (gen ℓ) (render e ++ rest) = some res := by
  induction e with
  | id s =>
    intro _ ℓ rest m res f _ _ hr _ h
    obtain ⟨f', rfl⟩ := loop_fuel_pos h
    simp only [cost, render, erase] at *
    unfold parseExpr
    simp only [parsePrefix, List.cons_append, List.nil_append, hr.ident_stays]
    exact h
  | num n =>
    intro _ ℓ rest m res f _ _ hr _ h
    obtain ⟨f', rfl⟩ := loop_fuel_pos h
    simp only [cost, render, erase] at *
    unfold parseExpr
    simp only [parsePrefix, List.cons_append, List.nil_append]
    exact h
  | par e ih =>
    intro hw ℓ rest m res f _ _ hr _ h
    obtain ⟨f', rfl⟩ := loop_fuel_pos h
    simp only [WellPar] at hw
    have hinner : parseExpr (f' + 1 + cost e) Prec.LOWEST (render e ++ .rparen :: rest) = some (erase e, .rparen :: rest) :=
      ih hw 0 (.rparen :: rest) 0 (erase e, .rparen :: rest) (f'+1) (by omega) (topAbove_zero e)
        (RestLevel.rparen rest) (openAtLeast_zero e)
        (infixLoop_stop T (RestLevel.rparen rest) _ 0 _ (Nat.le_refl _) (by omega))
    simp only [cost, render, List.cons_append, List.append_assoc, List.nil_append]
    show parseExpr ((f' + 1 + cost e + 1) + 1) (gen ℓ) _ = _
    unfold parseExpr
    simp only [parsePrefix, emptyTupleFollows_render, hinner]
    exact mono_loop (cost e + 1) h
  | neg e ih =>
    intro hw ℓ rest m res f _ _ hr ho h
    obtain ⟨f', rfl⟩ := loop_fuel_pos h
    simp only [WellPar] at hw
    simp only [openAtLeast] at ho
    have hinner : parseExpr (f' + 1 + cost e) Prec.UNARY (render e ++ rest) = some (erase e, rest) :=
      ih hw.1 lvUnary rest m (erase e, rest) (f'+1) (by decide) hw.2 hr ho.2
        (infixLoop_stop T hr _ lvUnary _ ho.1 (by decide))
    simp only [cost, render, List.cons_append]
    show parseExpr ((f' + 1 + cost e + 1) + 1) (gen ℓ) _ = _
    unfold parseExpr
    simp only [parsePrefix, castFollows_render e rest hr.not_other, hinner]
    exact mono_loop (cost e + 1) h
  | not e ih =>
    intro hw ℓ rest m res f _ _ hr ho h
    obtain ⟨f', rfl⟩ := loop_fuel_pos h
    simp only [WellPar] at hw
    simp only [openAtLeast] at ho
    have hinner : parseExpr (f' + 1 + cost e) (gen (notBind e)) (render e ++ rest) = some (erase e, rest) :=
      ih hw.1 (notBind e) rest m (erase e, rest) (f'+1) (notBind_le e) hw.2 hr ho.2
        (infixLoop_stop T hr _ (notBind e) _ ho.1 (notBind_le e))
    simp only [cost, render, List.cons_append]
    show parseExpr ((f' + 1 + cost e + 1) + 1) (gen ℓ) _ = _
    unfold parseExpr
    simp only [parsePrefix, notThreshold_render, hinner]
    exact mono_loop (cost e + 1) h
  | bin o l r ihl ihr =>
    intro hw ℓ rest m res f hℓ hp hr ho h
    obtain ⟨f', rfl⟩ := loop_fuel_pos h
    simp only [WellPar] at hw
    obtain ⟨hwl, hwr, hol, htl, htr⟩ := hw
    simp only [openAtLeast] at ho
    simp only [topAbove] at hp
    have hlv : level o ≤ 8 := Nat.le_trans (level_le o) (by decide)
    -- the right operand is parsed at the operator's own precedence and its loop stops in front of `rest`
    have hR : parseExpr (f' + 1 + cost r) (precedence o.kind) (render r ++ rest) = some (erase r, rest) := by
      rw [prec_op T]
      exact ihr hwr (level o) rest m (erase r, rest) (f'+1) hlv htr hr ho.2
        (infixLoop_stop T hr _ (level o) _ ho.1 hlv)
    -- the loop at level ℓ, holding `erase l`, sees the operator
    have hL : infixLoop (f' + 1 + cost r + 1) (gen ℓ) (erase l) (.op o :: (render r ++ rest)) = some res := by
      have hlt : gen ℓ < precedence o.kind := by rw [prec_op T]; exact gen_lt T hp hlv
      unfold infixLoop
      simp only [precedenceForCurrent, Tok.kind, hlt, ite_true, hR]
      exact mono_loop (cost r) h
    have := ihl hwl ℓ (.op o :: (render r ++ rest)) (level o) res (f' + 1 + cost r + 1) hℓ
      (topAbove_of_atLeast htl hp) (RestLevel.op o _) hol hL
    simp only [cost, render, List.append_assoc, List.cons_append]
    have e1 : f' + 1 + (cost l + cost r + 1) = f' + 1 + cost r + 1 + cost l := by omega
    rw [e1]; exact this

/-- C08 core: every well-parenthesised tree re-parses to itself. -/
theorem roundtrip (T : tableWellOrdered genTable) (e : E) (hw : WellPar e) : parse (render e) = some (erase e) := by
  have h : parseExpr (1 + cost e) Prec.LOWEST (render e ++ []) = some (erase e, []) :=
    parse_render T e hw 0 [] 0 (erase e, []) 1 (by omega) (topAbove_zero e) RestLevel.nil (openAtLeast_zero e)
    (infixLoop_stop T RestLevel.nil _ 0 _ (Nat.le_refl _) (by omega))
  simp only [List.append_nil] at h
  unfold parse
  have hc := cost_le e
  have : 2 * (render e).length + 2 = (1 + cost e) + (2 * (render e).length + 1 - cost e) := by omega
  rw [this, mono_expr _ h]

end DC.Proofs.Pratt
