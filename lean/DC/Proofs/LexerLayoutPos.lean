import DC.Proofs.LexerLayoutScan

/-!
# `NextToken` and the token stream do not depend on the position fields (C05 `lex_pos_irrelevant`)

Rest of the congruence (`$`-quoting, `readIdentifier`, the `switch`, `NextToken`), then the token stream from
an arbitrary state (`lexFrom`) and the stream the parser sees after its pump (`pumpedFrom`).
-/
namespace DC.Lexer
open DC.Utf8 DC.Gen.Tokens

theorem tryReadDollarTag_core {a b : LState} (h : CoreEq a b) :
    EEq (fun x y : Bytes × LState => x.1 = y.1 ∧ CoreEq x.2 y.2) (tryReadDollarTag a) (tryReadDollarTag b) := by
  unfold tryReadDollarTag
  simp only []
  rw [← h.rest]
  split
  · exact ⟨rfl, h⟩
  · split
    · exact ⟨rfl, h⟩
    · generalize tagScan _ _ _ = ts
      split
      · exact ⟨rfl, h⟩
      · split
        · exact ⟨rfl, h⟩
        · split
          · exact rfl
          · exact ⟨rfl, h⟩
          · exact ⟨rfl, (h.readChar.iterRC _).readChar⟩

theorem delimMatch_core {a b : LState} (h : CoreEq a b) (closing : Bytes) (i : Nat) :
    delimMatch a closing i = delimMatch b closing i := by
  fun_induction delimMatch a closing i with
  | case1 i hlt hnone => rw [delimMatch.eq_1 b, dif_pos hlt]; simp only [hnone]
  | case2 i hlt c hc hne => rw [delimMatch.eq_1 b, dif_pos hlt]; simp only [hc]; rw [← h.peekCharN, if_pos hne]
  | case3 i hlt c hc hne ih => rw [delimMatch.eq_1 b, dif_pos hlt]; simp only [hc]; rw [← h.peekCharN, if_neg hne]; exact ih
  | case4 i hlt => rw [delimMatch.eq_1 b, dif_neg hlt]

theorem dollarBodyLoop_core (closing : Bytes) {a b : LState} (h : CoreEq a b) (acc : Bytes) :
    EEq PEq (dollarBodyLoop closing a acc) (dollarBodyLoop closing b acc) := by
  fun_induction dollarBodyLoop closing a acc generalizing b with
  | case1 a acc hc h1 e he =>
    rw [dollarBodyLoop.eq_1 closing b, dif_pos (by rw [← h.eof]; exact hc), if_pos (by rw [← h.ch]; exact h1),
      ← delimMatch_core h]
    simp only [he]; exact rfl
  | case2 a acc hc h1 he =>
    rw [dollarBodyLoop.eq_1 closing b, dif_pos (by rw [← h.eof]; exact hc), if_pos (by rw [← h.ch]; exact h1),
      ← delimMatch_core h]
    simp only [he]; exact ⟨h.iterRC _, rfl⟩
  | case3 a acc hc h1 he ih =>
    rw [dollarBodyLoop.eq_1 closing b, dif_pos (by rw [← h.eof]; exact hc), if_pos (by rw [← h.ch]; exact h1),
      ← delimMatch_core h]
    simp only [he]; rw [← h.ch]; exact ih h.readChar
  | case4 a acc hc h1 ih =>
    rw [dollarBodyLoop.eq_1 closing b, dif_pos (by rw [← h.eof]; exact hc), if_neg (by rw [← h.ch]; exact h1), ← h.ch]
    exact ih h.readChar
  | case5 a acc hc =>
    rw [dollarBodyLoop.eq_1 closing b, dif_neg (by rw [← h.eof]; exact hc)]
    exact ⟨h, rfl⟩

theorem readDollarQuotedString_core (tag : Bytes) {a b : LState} (h : CoreEq a b) :
    EEq REq (readDollarQuotedString tag a) (readDollarQuotedString tag b) := by
  unfold readDollarQuotedString
  simp only []
  have h0 : CoreEq (if tag.isEmpty then readChar (readChar a) else a) (if tag.isEmpty then readChar (readChar b) else b) := by
    split
    · exact h.readChar.readChar
    · exact h
  have := dollarBodyLoop_core (36 :: (tag ++ [36])) h0 []
  revert this
  cases dollarBodyLoop (36 :: (tag ++ [36])) (if tag.isEmpty then readChar (readChar a) else a) [] <;>
    cases dollarBodyLoop (36 :: (tag ++ [36])) (if tag.isEmpty then readChar (readChar b) else b) [] <;>
    intro this
  · exact this
  · exact this.elim
  · exact this.elim
  · exact REq.mk (by rw [this.2]) this.1


theorem EEq.of_ok {r r' : Tok × LState} (h : REq r r') : EEq REq (.ok r) (.ok r') := h

theorem EEq.ite {α : Type} {R : α → α → Prop} {c : Prop} [Decidable c] {A A' B B' : Except PanicSite α}
    (h1 : c → EEq R A A') (h2 : ¬c → EEq R B B') : EEq R (if c then A else B) (if c then A' else B') := by
  by_cases hc : c
  · rw [if_pos hc, if_pos hc]; exact h1 hc
  · rw [if_neg hc, if_neg hc]; exact h2 hc

theorem readIdentifier_core {a b : LState} (h : CoreEq a b) : EEq REq (readIdentifier a) (readIdentifier b) := by
  unfold readIdentifier
  have h1 := scanWhile_core identCharCond identCharCond_ok identCharCond_core h []
  simp only []
  rw [← h.ch, ← h.peekChar]
  split
  · exact readHexString_core h.readChar
  · split
    · exact readBinaryString_core h.readChar
    · rw [← h1.2]
      exact ⟨rfl, h1.1⟩

theorem readAt_core {a b : LState} (h : CoreEq a b) : REq (readAt a) (readAt b) := by
  unfold readAt
  have h2 := h.readChar.readChar
  have h3 := scanWhile_core identCharCond identCharCond_ok identCharCond_core h2 [64, 64]
  simp only []
  rw [← h.peekChar, ← h2.ch]
  split
  · split
    · exact REq.mk (by rw [h3.2]) h3.1
    · exact REq.mk rfl h2
  · exact REq.mk rfl h.readChar

theorem readDollar_core {a b : LState} (h : CoreEq a b) : EEq REq (readDollar a) (readDollar b) := by
  unfold readDollar
  rw [← h.peekChar]
  split
  · exact readDollarQuotedString_core [] h
  · have := tryReadDollarTag_core h
    revert this
    cases tryReadDollarTag a <;> cases tryReadDollarTag b <;> intro this
    · simp only []; exact this
    · exact this.elim
    · exact this.elim
    · rename_i x y
      obtain ⟨t1, s1⟩ := x
      obtain ⟨t2, s2⟩ := y
      obtain ⟨ht, hs⟩ := this
      simp only [] at ht hs
      subst ht
      simp only []
      split
      · exact readDollarQuotedString_core _ hs
      · exact readDollarIdentifier_core h

def OEq : Option (Tok × LState) → Option (Tok × LState) → Prop
  | some r, some r' => REq r r'
  | none, none => True
  | _, _ => False

theorem readOperator_core {a b : LState} (h : CoreEq a b) : OEq (readOperator a) (readOperator b) := by
  unfold readOperator
  have h1 := h.readChar
  have h2 := h1.readChar
  have h3 := h2.readChar
  simp only []
  rw [← h.ch, ← h.peekChar, ← h1.ch, ← h2.ch]
  repeat' split
  all_goals first
    | exact trivial
    | exact REq.mk rfl h1
    | exact REq.mk rfl h2
    | exact REq.mk rfl h3

theorem readDot_core {a b : LState} (h : CoreEq a b) : REq (readDot a) (readDot b) := by
  unfold readDot
  rw [← h.peekChar, ← h.isIdentifierAfterDot]
  split
  · split
    · exact REq.mk rfl h.readChar
    · exact readNumber_core h
  · exact REq.mk rfl h.readChar

theorem nextTokenSwitch_core {a b : LState} (h : CoreEq a b) : EEq REq (nextTokenSwitch a) (nextTokenSwitch b) := by
  unfold nextTokenSwitch
  rw [← h.ch]
  cases singleCharKind a.ch with
  | some k => exact REq.mk rfl h.readChar
  | none =>
    simp only []
    have := readOperator_core h
    revert this
    cases readOperator a <;> cases readOperator b <;> intro this
    · simp only []
      repeat' (apply EEq.ite <;> intro _)
      all_goals first
        | exact readParameter_core h
        | exact readDot_core h
        | exact readDollar_core h
        | exact readString_core _ h
        | exact readUnicodeString_core _ h
        | exact readQuotedIdentifier_core h
        | exact readUnicodeQuotedIdentifier_core _ h
        | exact readBacktickIdentifier_core h
        | exact readAt_core h
        | exact readNumberOrIdent_core h
        | exact readIdentifier_core h
        | exact REq.mk rfl h.readChar
    · exact this.elim
    · exact this.elim
    · exact this

theorem nextTokenE_core {a b : LState} (h : CoreEq a b) : EEq REq (nextTokenE a) (nextTokenE b) := by
  unfold nextTokenE
  have hw := skipWhitespace_core h
  simp only []
  rw [← hw.eof, ← hw.ch, ← hw.peekChar]
  repeat' split
  all_goals first
    | exact REq.mk rfl hw
    | exact readLineComment_core hw
    | exact readHashComment_core hw
    | exact readBlockComment_core hw
    | exact readUnicodeMinusComment_core hw
    | exact nextTokenSwitch_core hw

theorem nextToken_core {a b : LState} (h : CoreEq a b) : REq (nextToken a) (nextToken b) := by
  have := nextTokenE_core h
  rw [nextTokenE_eq, nextTokenE_eq] at this
  exact this


/-! ## the token stream from a state -/

/-- `Tokenize` started in an arbitrary state (same loop, same fuel rule as `lexOutcome`). -/
def lexFrom (s : LState) : List Tok :=
  match tokenizeLoop (s.measure + 1) s [] with
  | .ok l => l
  | .error _ => []

/-- `New(input)`. -/
def stateAt (b : Bytes) : LState := new b

theorem lex_eq_lexFrom (b : Bytes) : lex b = lexFrom (stateAt b) := rfl

theorem lexFrom_trace (s : LState) : Trace s (lexFrom s) := by
  obtain ⟨l, hl, ht⟩ := tokenizeLoop_spec (s.measure + 1) s [] (by omega)
  unfold lexFrom
  rw [hl]
  exact ht

theorem Trace.unique {s : LState} {l l' : List Tok} (h : Trace s l) (h' : Trace s l') : l = l' := by
  induction h generalizing l' with
  | eof hk =>
    cases h' with
    | eof _ => rfl
    | cons hk' _ => exact absurd hk hk'
  | cons hk _ ih =>
    cases h' with
    | eof hk' => exact absurd hk' hk
    | cons _ ht' => rw [ih ht']

theorem lexFrom_eof {s : LState} (h : (nextToken s).1.kind = tEOF) : lexFrom s = [(nextToken s).1] :=
  (lexFrom_trace s).unique (Trace.eof h)

theorem lexFrom_cons {s : LState} (h : (nextToken s).1.kind ≠ tEOF) :
    lexFrom s = (nextToken s).1 :: lexFrom (nextToken s).2 :=
  (lexFrom_trace s).unique (Trace.cons h (lexFrom_trace _))

/-- two states on which `NextToken` agrees have the same stream. -/
theorem lexFrom_congr {s s' : LState} (h : nextToken s = nextToken s') : lexFrom s = lexFrom s' := by
  by_cases hk : (nextToken s).1.kind = tEOF
  · have hk' : (nextToken s').1.kind = tEOF := h ▸ hk
    rw [lexFrom_eof hk, lexFrom_eof hk', h]
  · have hk' : (nextToken s').1.kind ≠ tEOF := h ▸ hk
    rw [lexFrom_cons hk, lexFrom_cons hk', h]

theorem Trace.core {a : LState} {l : List Tok} (ht : Trace a l) :
    ∀ {b : LState}, CoreEq a b → l.map Tok.kvq = (lexFrom b).map Tok.kvq := by
  induction ht with
  | @eof a hk =>
    intro b h
    have hr := nextToken_core h
    have hk' : (nextToken b).1.kind = tEOF := by
      have := congrArg (·.1) hr.1
      simp only [Tok.kvq] at this
      rw [← this]; exact hk
    rw [lexFrom_eof hk']
    simp only [List.map_cons, List.map_nil, hr.1]
  | @cons a l hk _ ih =>
    intro b h
    have hr := nextToken_core h
    have hk' : (nextToken b).1.kind ≠ tEOF := by
      have := congrArg (·.1) hr.1
      simp only [Tok.kvq] at this
      rw [← this]; exact hk
    rw [lexFrom_cons hk']
    simp only [List.map_cons, hr.1, ih hr.2]

theorem lexFrom_core {a b : LState} (h : CoreEq a b) : (lexFrom a).map Tok.kvq = (lexFrom b).map Tok.kvq :=
  (lexFrom_trace a).core h

/-- is this one of the two kinds the parser's pump drops (parser.go:63-70)? -/
def isTriviaKind (k : Nat) : Bool := k == tWHITESPACE || k == tLINE_COMMENT

/-- what the parser sees of the stream from `s`: `(kind, value, quoted)` of every token that the pump
(`parser.nextToken`, parser.go:59-71) does not drop. -/
def pumpedFrom (s : LState) : List (Nat × Bytes × Bool) :=
  ((lexFrom s).map Tok.kvq).filter (fun x => !isTriviaKind x.1)

theorem pumpedFrom_core {a b : LState} (h : CoreEq a b) : pumpedFrom a = pumpedFrom b := by
  unfold pumpedFrom; rw [lexFrom_core h]

theorem pumpedFrom_congr {s s' : LState} (h : nextToken s = nextToken s') : pumpedFrom s = pumpedFrom s' := by
  unfold pumpedFrom; rw [lexFrom_congr h]

/-- a trivia token contributes nothing. -/
theorem pumpedFrom_trivia {s : LState} (hk : isTriviaKind (nextToken s).1.kind = true) :
    pumpedFrom s = pumpedFrom (nextToken s).2 := by
  have hne : (nextToken s).1.kind ≠ tEOF := by
    intro h; rw [h] at hk; revert hk; decide
  unfold pumpedFrom
  rw [lexFrom_cons hne, List.map_cons, List.filter_cons]
  simp [Tok.kvq, hk]

theorem pumpedFrom_token {s : LState} (hk : isTriviaKind (nextToken s).1.kind = false)
    (hne : (nextToken s).1.kind ≠ tEOF) :
    pumpedFrom s = (nextToken s).1.kvq :: pumpedFrom (nextToken s).2 := by
  unfold pumpedFrom
  rw [lexFrom_cons hne, List.map_cons, List.filter_cons]
  simp [Tok.kvq, hk]

theorem pumpedFrom_eof {s : LState} (hk : (nextToken s).1.kind = tEOF) :
    pumpedFrom s = [(nextToken s).1.kvq] := by
  unfold pumpedFrom
  rw [lexFrom_eof hk, List.map_cons, List.map_nil, List.filter_cons]
  have : isTriviaKind (nextToken s).1.kvq.1 = false := by
    show isTriviaKind (nextToken s).1.kind = false
    rw [hk]; decide
  simp [this]

end DC.Lexer
