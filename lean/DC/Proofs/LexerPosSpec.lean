import DC.Proofs.LexerPos

/-!
# `posOf` says what it should

`posOf b k` was defined as an accumulating scan. Here it is characterised declaratively: with
`runesBefore b k` the runes of `b` (greedy `utf8.DecodeRune`) that precede the rune containing byte `k`,

* line   = 1 + number of `'\n'` among them,
* column = 1 + number of runes after the last `'\n'` among them.
-/
namespace DC.Lexer
open DC.Utf8

/-- the runes of `l` strictly before the rune that contains byte number `k` (1-based). -/
def runesBefore (l : Bytes) (k : Nat) : List Nat :=
  if h : l = [] then []
  else
    let d := decodeRune l
    if k ≤ d.2 then [] else d.1 :: runesBefore (l.drop d.2) (k - d.2)
termination_by l.length
decreasing_by
  cases l with
  | nil => exact absurd rfl h
  | cons a t =>
    have := decodeRune_size_pos a t
    simp only [List.length_drop, List.length_cons]
    omega

/-- position of the next rune after a rune `r` at position `p`. -/
def advance (p : Nat × Nat) (r : Nat) : Nat × Nat := if r = 10 then (p.1 + 1, 1) else (p.1, p.2 + 1)

theorem advance_eq (line col r : Nat) :
    advance (line, col) r = (if r = 10 then line + 1 else line, if r = 10 then 1 else col + 1) := by
  unfold advance
  split <;> rfl

theorem advance_ten (p : Nat × Nat) : advance p 10 = (p.1 + 1, 1) := by simp [advance]
theorem advance_ne (p : Nat × Nat) (r : Nat) (h : r ≠ 10) : advance p r = (p.1, p.2 + 1) := by simp [advance, h]

theorem posFrom_eq_foldl (l : Bytes) (k line col : Nat) :
    posFrom l k line col = (runesBefore l k).foldl advance (line, col) := by
  fun_induction posFrom l k line col with
  | case1 line col k => rw [runesBefore, dif_pos rfl]; rfl
  | case2 l k line col hne d hk => rw [runesBefore, dif_neg hne]; simp only []; rw [if_pos hk]; rfl
  | case3 l k line col hne d hk ih =>
    refine Eq.trans ih ?_
    conv => rhs; rw [runesBefore, dif_neg hne]
    simp only []
    rw [if_neg hk, List.foldl_cons, advance_eq]
    rfl

theorem foldr_advance_line (q : List Nat) (p : Nat × Nat) :
    (q.foldr (fun r p => advance p r) p).1 = p.1 + q.count 10 := by
  induction q with
  | nil => rfl
  | cons r q ih =>
    rw [List.foldr_cons]
    by_cases h : r = 10
    · subst h
      rw [List.count_cons_self, advance_ten]
      show ((q.foldr (fun r p => advance p r) p).1 + 1) = _
      rw [ih]; omega
    · rw [List.count_cons_of_ne h, advance_ne _ _ h]
      exact ih

theorem foldr_advance_col (q : List Nat) (p : Nat × Nat) :
    (q.foldr (fun r p => advance p r) p).2 = (if 10 ∈ q then 1 else p.2) + (q.takeWhile (· ≠ 10)).length := by
  induction q with
  | nil => rfl
  | cons r q ih =>
    rw [List.foldr_cons]
    by_cases h : r = 10
    · subst h
      rw [List.takeWhile_cons, advance_ten]
      simp
    · rw [advance_ne _ _ h, List.takeWhile_cons]
      have h' : ¬ (10 = r) := fun e => h e.symm
      show (q.foldr (fun r p => advance p r) p).2 + 1 = _
      rw [ih]
      simp only [ne_eq, h, not_false_eq_true, decide_true, if_true, List.length_cons, List.mem_cons, h', false_or]
      omega

/-- the declarative reading of `posOf`. -/
theorem posOf_eq (b : Bytes) (k : Nat) :
    posOf b k = (1 + (runesBefore b k).count 10,
                 1 + ((runesBefore b k).reverse.takeWhile (· ≠ 10)).length) := by
  unfold posOf
  rw [posFrom_eq_foldl]
  have hrev : (runesBefore b k).foldl advance (1, 1) =
      (runesBefore b k).reverse.foldr (fun r p => advance p r) (1, 1) := by
    rw [List.foldr_reverse]
  rw [hrev]
  apply Prod.ext
  · rw [foldr_advance_line]; simp
  · rw [foldr_advance_col]
    by_cases hm : 10 ∈ (runesBefore b k).reverse
    · rw [if_pos hm]
    · rw [if_neg hm]

#guard posOf (strBytes "ab\ncd") 1 == (1, 1)
#guard posOf (strBytes "ab\ncd") 3 == (1, 3)   -- the newline itself closes line 1
#guard posOf (strBytes "ab\ncd") 4 == (2, 1)
#guard posOf (strBytes "é\n中x") 2 == (1, 1)   -- é ends at byte 2
#guard posOf (strBytes "é\n中x") 6 == (2, 1)   -- 中 ends at byte 6
#guard posOf (strBytes "é\n中x") 7 == (2, 2)

end DC.Lexer
