import DC.Spec.BufioSpec

/-! Error bookkeeping of `bufio.Reader` for arbitrary scripts (C15): every error `fill` stores is returned exactly
once, in order, by the operation that hits it; no `Read` is issued while one is pending; `fill` never panics. -/
namespace DC.Bufio
open DC

/-- `d` = the stored errors already handed out; the pending one (if any) is the last of `log`. `s0` = the script
the reader started with: the `other` errors logged so far are exactly those of the consumed events. -/
structure Inv0 (s0 : Script) (d : List Err) (b : BR) : Prop where
  log : d ++ b.err.toList = b.log
  others : otherIds b.log ++ otherIds (scriptErrs b.rd) = otherIds (scriptErrs s0)
  ok : b.panicked = false

theorem otherIds_append (a b : List Err) : otherIds (a ++ b) = otherIds a ++ otherIds b := by
  simp [otherIds, List.filterMap_append]

theorem sread_others (k : Nat) (s : Script) :
    otherIds (sread k s).1.2.toList ++ otherIds (scriptErrs (sread k s).2) = otherIds (scriptErrs s) := by
  rcases s with _ | ⟨ev, rest⟩
  · simp [sread, otherIds, scriptErrs]
  · simp only [sread]
    split
    · rcases hev : ev.err with _ | e
      · simp [scriptErrs, otherIds, hev]
      · cases e <;> simp [scriptErrs, otherIds, hev]
    · rcases hev : ev.err with _ | e
      · simp [scriptErrs, otherIds, hev]
      · cases e <;> simp [scriptErrs, otherIds, hev]

/-- what `fill` does to the bookkeeping, started with an empty error slot -/
structure FillLog (b b' : BR) : Prop where
  log : b'.log = b.log ++ b'.err.toList
  others : otherIds b'.log ++ otherIds (scriptErrs b'.rd) = otherIds b.log ++ otherIds (scriptErrs b.rd)
  ok : b'.panicked = b.panicked
  cap : b'.cap = b.cap

theorem fillLoop_log (i : Nat) (b : BR) (he : b.err = none) : FillLog b (fillLoop i b) := by
  induction i generalizing b with
  | zero => constructor <;> simp [fillLoop, otherIds]
  | succ i ih =>
    have hso := sread_others (b.cap - b.buf.length) b.rd
    simp only [fillLoop]
    split
    · next e hres =>
      rw [hres] at hso
      constructor
      · simp
      · simp only [otherIds_append, List.append_assoc]
        simp only [Option.toList] at hso
        rw [hso]
      · rfl
      · rfl
    · next hres =>
      rw [hres] at hso
      simp only [Option.toList, otherIds, List.filterMap_nil, List.nil_append] at hso
      split
      · constructor
        · simp [he]
        · simp only [otherIds] ; rw [hso]
        · rfl
        · rfl
      · have := ih { b with rd := (sread (b.cap - b.buf.length) b.rd).2, buf := b.buf ++ (sread (b.cap - b.buf.length) b.rd).1.1 } he
        constructor
        · exact this.log
        · rw [this.others]; simp only [otherIds]; rw [hso]
        · exact this.ok
        · exact this.cap

theorem fill_log (b : BR) (he : b.err = none) (hl : b.buf.length < b.cap) : FillLog b (fill b) := by
  unfold fill
  simp only [ge_iff_le]
  rw [if_neg (by simp; exact hl)]
  have := fillLoop_log maxConsecutiveEmptyReads { b with r := 0 } he
  exact ⟨this.log, this.others, this.ok, this.cap⟩

theorem fill_inv0 (s0 : Script) (d : List Err) (b : BR) (h : Inv0 s0 d b) (he : b.err = none) (hl : b.buf.length < b.cap) :
    Inv0 s0 d (fill b) := by
  have f := fill_log b he hl
  have hd : d = b.log := by have := h.log; simpa [he] using this
  constructor
  · rw [f.log, hd]
  · rw [f.others]; exact h.others
  · rw [f.ok]; exact h.ok

theorem peekLoop_inv0 (s0 : Script) (d : List Err) (n : Nat) (b : BR) (h : Inv0 s0 d b) : Inv0 s0 d (peekLoop n b) := by
  fun_induction peekLoop n b with
  | case1 b hcond ih => exact ih (fill_inv0 s0 d b h hcond.2.2.1 hcond.2.1)
  | case2 b hcond => exact h

theorem rrLoop_inv0 (s0 : Script) (d : List Err) (b : BR) (h : Inv0 s0 d b) : Inv0 s0 d (rrLoop b) := by
  fun_induction rrLoop b with
  | case1 b hcond ih => exact ih (fill_inv0 s0 d b h hcond.2.2.1 hcond.2.2.2.1)
  | case2 b hcond => exact h

theorem peekLoop_cap (n : Nat) (b : BR) : (peekLoop n b).cap = b.cap := by
  fun_induction peekLoop n b with
  | case1 b hcond ih => rw [ih, (fill_log b hcond.2.2.1 hcond.2.1).cap]
  | case2 b hcond => rfl

theorem rrLoop_cap (b : BR) : (rrLoop b).cap = b.cap := by
  fun_induction rrLoop b with
  | case1 b hcond ih => rw [ih, (fill_log b hcond.2.2.1 hcond.2.2.2.1).cap]
  | case2 b hcond => rfl

theorem peekLoop_exit (n : Nat) (b : BR) :
    ¬ ((peekLoop n b).buf.length < n ∧ (peekLoop n b).buf.length < (peekLoop n b).cap ∧ (peekLoop n b).err = none ∧
        (peekLoop n b).panicked = false) := by
  fun_induction peekLoop n b with
  | case1 b hcond ih => exact ih
  | case2 b hcond => exact hcond

/-- while an error is pending the loops do nothing (so no `Read` is issued) -/
theorem peekLoop_pending (n : Nat) (b : BR) (he : b.err ≠ none) : peekLoop n b = b := by
  rw [peekLoop]
  simp [he]

theorem rrLoop_pending (b : BR) (he : b.err ≠ none) : rrLoop b = b := by
  rw [rrLoop]
  simp [he]

/-- `ReadRune` never returns `(0, 0, nil)`: an empty buffer after the loop means the error slot is set. -/
theorem rrLoop_empty_err (b : BR) (hok : b.panicked = false) (hcap : 0 < b.cap) (hemp : (rrLoop b).buf = []) :
    (rrLoop b).err ≠ none := by
  fun_induction rrLoop b with
  | case1 b hcond ih =>
    have hf : (fill b).panicked = false ∧ (fill b).cap = b.cap := by
      unfold fill
      simp only [ge_iff_le]
      rw [if_neg (by simp; exact hcond.2.2.2.1)]
      have hc : ∀ i (b : BR), (fillLoop i b).panicked = b.panicked ∧ (fillLoop i b).cap = b.cap := by
        intro i
        induction i with
        | zero => intro b; simp [fillLoop]
        | succ i ih =>
          intro b
          simp only [fillLoop]
          split
          · simp
          · split
            · simp
            · have := ih { b with rd := (sread (b.cap - b.buf.length) b.rd).2, buf := b.buf ++ (sread (b.cap - b.buf.length) b.rd).1.1 }
              simpa using this
      have := hc maxConsecutiveEmptyReads { b with r := 0 }
      simpa [hok] using this
    exact ih (by rw [hf.1]) (by rw [hf.2]; exact hcap) hemp
  | case2 b hcond =>
    intro he
    apply hcond
    simp [hemp, Utf8B.utfMax, Utf8B.fullRune, he, hok, hcap]

theorem readRune_inv (s0 : Script) (d : List Err) (b : BR) (h : Inv0 s0 d b) :
    (Inv0 s0 d (readRune b).2 ∧ (readRune b).1.err = none) ∨
    (∃ e, Inv0 s0 (d ++ [e]) (readRune b).2 ∧ (readRune b).1.err = some e ∧ (readRune b).2.err = none) := by
  have hl := rrLoop_inv0 s0 d b h
  unfold readRune
  simp only []
  generalize rrLoop b = b' at hl
  by_cases hemp : b'.buf.isEmpty = true
  · simp only [hemp, if_true, readErr]
    rcases he : b'.err with _ | e
    · left
      refine ⟨?_, (by first | rfl | trivial)⟩
      constructor
      · simpa [he] using hl.log
      · exact hl.others
      · exact hl.ok
    · right
      refine ⟨e, ?_, (by first | rfl | trivial), (by first | rfl | trivial)⟩
      constructor
      · simpa [he] using hl.log
      · exact hl.others
      · exact hl.ok
  · simp only [hemp]
    left
    refine ⟨?_, (by first | rfl | trivial)⟩
    constructor
    · exact hl.log
    · exact hl.others
    · exact hl.ok

theorem peek_inv (s0 : Script) (d : List Err) (n : Nat) (b : BR) (h : Inv0 s0 d b) :
    (Inv0 s0 d (peek n b).2 ∧ ((peek n b).1.2 = none ∨ ((peek n b).1.2 = some .bufferFull ∧ b.cap < n))) ∨
    (∃ e, Inv0 s0 (d ++ [e]) (peek n b).2 ∧ (peek n b).1.2 = some e ∧ (peek n b).2.err = none ∧ n ≤ b.cap) := by
  have hl := peekLoop_inv0 s0 d n b h
  have hcap := peekLoop_cap n b
  have hexit := peekLoop_exit n b
  unfold peek
  simp only []
  generalize peekLoop n b = b' at hl hcap hexit
  by_cases hn : n > b'.cap
  · simp only [hn, if_true]
    exact Or.inl ⟨hl, Or.inr ⟨(by first | rfl | trivial), by omega⟩⟩
  · simp only [hn, if_false]
    by_cases hs : b'.buf.length < n
    · simp only [hs, if_true, readErr]
      rcases he : b'.err with _ | e
      · -- impossible: the loop only stops short of n ≤ cap bytes because of an error
        exact absurd ⟨hs, by omega, he, hl.ok⟩ hexit
      · right
        refine ⟨e, ?_, (by first | rfl | trivial), (by first | rfl | trivial), by omega⟩
        constructor
        · simpa [he] using hl.log
        · exact hl.others
        · exact hl.ok
    · simp only [hs, if_false]
      exact Or.inl ⟨hl, Or.inl (by first | rfl | trivial)⟩

/-- one operation: either nothing is handed out (the result carries no error, or it is a `Peek` larger than the
buffer answering its own `ErrBufferFull`), or exactly the oldest pending error `e` is handed out as this operation's
error, the slot is empty afterwards, and the operation is not a `Peek` larger than the buffer. -/
theorem step_inv (s0 : Script) (d : List Err) (op : Op) (b : BR) (h : Inv0 s0 d b) :
    (Inv0 s0 d (step op b).2 ∧
      ((step op b).1.err = none ∨ ((step op b).1.err = some .bufferFull ∧ ∃ n, op = .peek n ∧ b.cap < n))) ∨
    (∃ e, Inv0 s0 (d ++ [e]) (step op b).2 ∧ (step op b).1.err = some e ∧ (step op b).2.err = none ∧
      ∀ n, op = .peek n → n ≤ b.cap) := by
  cases op with
  | readRune =>
    rcases readRune_inv s0 d b h with ⟨h1, h2⟩ | ⟨e, h1, h2, h3⟩
    · exact Or.inl ⟨h1, Or.inl h2⟩
    · exact Or.inr ⟨e, h1, h2, h3, by intro n hn; cases hn⟩
  | peek n =>
    rcases peek_inv s0 d n b h with ⟨h1, h2⟩ | ⟨e, h1, h2, h3, h4⟩
    · left
      refine ⟨h1, ?_⟩
      rcases h2 with h2 | ⟨h2, h3⟩
      · exact Or.inl h2
      · exact Or.inr ⟨h2, n, rfl, h3⟩
    · exact Or.inr ⟨e, h1, h2, h3, by intro m hm; cases hm; exact h4⟩

theorem step_cap (op : Op) (b : BR) : (step op b).2.cap = b.cap := by
  cases op with
  | readRune =>
    simp only [step, readRune]
    split <;> simp [readErr, rrLoop_cap]
  | peek n =>
    simp only [step, peek]
    split
    · exact peekLoop_cap n b
    · split <;> simp [readErr, peekLoop_cap]

/-- **No error is lost by large peeks.** A `Peek(n)` with `n > Size()` (the `Peek(8192)` of `tryReadDollarTag`) answers
`bufio.ErrBufferFull` whatever the reader did, and whatever error it found or received stays in the slot for the next
operation. -/
theorem large_peek_keeps_error (n : Nat) (b : BR) (hn : b.cap < n) :
    (peek n b).1.2 = some .bufferFull ∧ (peek n b).2 = peekLoop n b ∧ (b.err ≠ none → (peek n b).2.err = b.err) := by
  have hcap := peekLoop_cap n b
  unfold peek
  simp only []
  have : n > (peekLoop n b).cap := by omega
  simp only [this, if_true]
  refine ⟨trivial, trivial, ?_⟩
  intro he
  rw [peekLoop_pending n b he]

theorem step_pending_noread (op : Op) (b : BR) (he : b.err ≠ none) : (step op b).2.rd = b.rd := by
  cases op with
  | readRune =>
    simp only [step, readRune, rrLoop_pending b he]
    split <;> simp [readErr]
  | peek n =>
    simp only [step, peek, peekLoop_pending n b he]
    split
    · rfl
    · split <;> simp [readErr]

theorem inv0_init (script : Script) (size : Nat) : Inv0 script [] (newReaderSize script size) := by
  constructor <;> simp [newReaderSize, otherIds]

/-- the errors handed out by a run, `ErrBufferFull` aside, followed by the pending one, are the stored ones -/
theorem run_inv (s0 : Script) (ops : List Op) (d : List Err) (b : BR) (h : Inv0 s0 d b) :
    ∃ d', Inv0 s0 d' (run ops b).2 ∧
      d'.filter notBufferFull = d.filter notBufferFull ++ (resErrs (run ops b).1).filter notBufferFull := by
  induction ops generalizing d b with
  | nil => exact ⟨d, h, by simp [run, resErrs]⟩
  | cons op rest ih =>
    simp only [run]
    rcases step_inv s0 d op b h with ⟨h1, h2⟩ | ⟨e, h1, h2, _, _⟩
    · obtain ⟨d', hd1, hd2⟩ := ih d _ h1
      refine ⟨d', hd1, ?_⟩
      rw [hd2]
      rcases h2 with h2 | ⟨h2, _⟩ <;> simp [resErrs, h2, notBufferFull]
    · obtain ⟨d', hd1, hd2⟩ := ih (d ++ [e]) _ h1
      refine ⟨d', hd1, ?_⟩
      rw [hd2]
      simp only [resErrs, List.filterMap_cons, h2, List.filter_append, List.filter_cons, List.filter_nil, List.append_assoc]
      split <;> simp

/-! ### the lexer's wrappers -/

theorem firstRep_snoc (d : List Err) (e : Err) : firstRep (d ++ [e]) = recordErr (firstRep d) (some e) := by
  unfold firstRep
  rw [List.filter_append]
  rcases hf : d.filter reportable with _ | ⟨x, xs⟩
  · cases e <;> simp [recordErr, reportable]
  · cases e <;> simp [recordErr, reportable]

/-- invariant of the lexer's reader-facing state -/
structure ClientInv (s0 : Script) (c : Client) : Prop where
  inv : ∃ d, Inv0 s0 d c.b ∧ c.err = firstRep d
  eof : c.eof = true → c.b.err = none

theorem client_step_inv (s0 : Script) (op : Op) (c : Client) (h : ClientInv s0 c) : ClientInv s0 (c.step op).2 := by
  unfold Client.step
  by_cases heof : c.eof = true
  · simp only [heof, if_true]; exact h
  · have heof' : c.eof = false := by simpa using heof
    simp only [heof', Bool.false_eq_true, if_false]
    obtain ⟨d, hd, hrec⟩ := h.inv
    rcases step_inv s0 d op c.b hd with ⟨h1, h2⟩ | ⟨e, h1, h2, h3, h4⟩
    · cases op with
      | readRune =>
        have hnone : (step Op.readRune c.b).1.err = none := by
          rcases h2 with h2 | ⟨_, n, h2, _⟩
          · exact h2
          · cases h2
        simp only [hnone, Option.isSome_none, recordErr, Bool.false_eq_true, if_false]
        exact ⟨⟨d, h1, hrec⟩, by simp⟩
      | peek n =>
        have hr : (if n ≤ (step (Op.peek n) c.b).2.size then recordErr c.err (step (Op.peek n) c.b).1.err else c.err) = c.err := by
          rcases h2 with h2 | ⟨h2, m, hm, hlt⟩
          · simp [h2, recordErr]
          · cases hm
            have : ¬ n ≤ (step (Op.peek n) c.b).2.size := by
              simp only [BR.size, step_cap]; omega
            simp [this]
        simp only [hr]
        exact ⟨⟨d, h1, hrec⟩, by simp⟩
    · have hr : recordErr c.err (step op c.b).1.err = firstRep (d ++ [e]) := by
        rw [h2, hrec, firstRep_snoc]
      cases op with
      | readRune =>
        have hr' : recordErr c.err (some e) = firstRep (d ++ [e]) := by rw [← h2]; exact hr
        simp only [h2, Option.isSome_some, if_true]
        exact ⟨⟨d ++ [e], h1, hr'⟩, fun _ => h3⟩
      | peek n =>
        have : n ≤ (step (Op.peek n) c.b).2.size := by
          simp only [BR.size, step_cap]; exact h4 n rfl
        simp only [this, if_true, hr]
        exact ⟨⟨d ++ [e], h1, rfl⟩, by simp⟩

theorem client_run_inv (s0 : Script) (ops : List Op) (c : Client) (h : ClientInv s0 c) : ClientInv s0 (Client.run ops c) := by
  induction ops generalizing c with
  | nil => exact h
  | cons op rest ih => exact ih _ (client_step_inv s0 op c h)

theorem client_init_inv (script : Script) : ClientInv script (Client.new script) := by
  constructor
  · exact ⟨[], inv0_init script defaultBufSize, rfl⟩
  · intro h; simp [Client.new] at h

/-- the old code never records anything -/
theorem client_runOld_err (ops : List Op) (c : Client) : (Client.runOld ops c).err = c.err := by
  induction ops generalizing c with
  | nil => rfl
  | cons op rest ih =>
    simp only [Client.runOld]
    rw [ih]
    unfold Client.stepOld
    split
    · rfl
    · cases op <;> simp <;> split <;> rfl

end DC.Bufio
