import DC.Model.Types

/-! Decimal digits: `natOfDigits? (decimal n) = some n`, and digits are plain bytes. -/
namespace DC.Types

theorem digitsVal_append (a b : Bytes) (acc : Nat) : digitsVal (a ++ b) acc = digitsVal b (digitsVal a acc) := by
  induction a generalizing acc with
  | nil => rfl
  | cons x xs ih => simp [digitsVal, ih]

theorem digit_byte (d : Nat) (h : d < 10) : ((48 + d).toUInt8).toNat - 48 = d ∧ isDigit (48 + d).toUInt8 = true := by
  have : d = 0 ∨ d = 1 ∨ d = 2 ∨ d = 3 ∨ d = 4 ∨ d = 5 ∨ d = 6 ∨ d = 7 ∨ d = 8 ∨ d = 9 := by omega
  rcases this with h | h | h | h | h | h | h | h | h | h <;> subst h <;> decide

/-- invariant of `decAux`: the digits produced, read as a number, followed by `acc`. -/
theorem decAux_spec (f n : Nat) (acc : Bytes) (hf : n < f) (hacc : acc.all isDigit = true) :
    (decAux f n acc).all isDigit = true ∧ decAux f n acc ≠ [] ∧
    ∀ a0, digitsVal (decAux f n acc) a0 = digitsVal acc (a0 * 10 ^ ((decAux f n acc).length - acc.length) + n) ∧
      acc.length < (decAux f n acc).length := by
  induction f generalizing n acc with
  | zero => omega
  | succ f ih =>
    have hd := digit_byte (n % 10) (Nat.mod_lt _ (by omega))
    unfold decAux
    simp only
    generalize (48 + n % 10).toUInt8 = dg at hd ⊢
    obtain ⟨hd1, hd2⟩ := hd
    split
    · rename_i h0
      have hn : n % 10 = n := by omega
      refine ⟨by simp [List.all_cons, hd2, hacc], by simp, ?_⟩
      intro a0
      simp [digitsVal, hd1, hn]
    · rename_i h0
      have hlt : n / 10 < f := by omega
      have hacc' : (dg :: acc).all isDigit = true := by simp [List.all_cons, hd2, hacc]
      obtain ⟨h1, h2, h3⟩ := ih (n / 10) (dg :: acc) hlt hacc'
      refine ⟨h1, h2, ?_⟩
      intro a0
      obtain ⟨h3a, h3b⟩ := h3 a0
      constructor
      · rw [h3a]
        simp only [digitsVal, hd1, List.length_cons]
        congr 1
        have hlen : (decAux f (n / 10) (dg :: acc)).length - acc.length
            = ((decAux f (n / 10) (dg :: acc)).length - (acc.length + 1)) + 1 := by
          simp only [List.length_cons] at h3b; omega
        rw [hlen, Nat.pow_succ]
        have := Nat.div_add_mod n 10
        rw [Nat.add_mul, Nat.mul_assoc]
        omega
      · simp only [List.length_cons] at h3b; omega

theorem decimal_digits (n : Nat) : (decimal n).all isDigit = true := (decAux_spec (n + 1) n [] (by omega) rfl).1
theorem decimal_ne_nil (n : Nat) : decimal n ≠ [] := (decAux_spec (n + 1) n [] (by omega) rfl).2.1
theorem decimal_val (n : Nat) : digitsVal (decimal n) 0 = n := by
  have := ((decAux_spec (n + 1) n [] (by omega) rfl).2.2 0).1
  simpa [decimal, digitsVal] using this

theorem natOfDigits_decimal (n : Nat) : natOfDigits? (decimal n) = some n := by
  simp [natOfDigits?, decimal_ne_nil, decimal_digits, decimal_val]

theorem parseNumberTok_decimal (k : Nat) (n : Nat) (h : n < 2 ^ 64) : parseNumberTok ⟨k, decimal n⟩ = some (.litInt n) := by
  simp [parseNumberTok, natOfDigits_decimal, h]

theorem isDigit_plain (b : UInt8) (h : isDigit b = true) : plainByte b = true := by
  simp only [plainByte, Bool.not_eq_true', Bool.or_eq_false_iff, beq_eq_false_iff_ne, ne_eq]
  refine ⟨⟨⟨⟨⟨⟨⟨?_, ?_⟩, ?_⟩, ?_⟩, ?_⟩, ?_⟩, ?_⟩, ?_⟩ <;> (intro hb; subst hb; exact absurd h (by decide))

theorem decimal_plain (n : Nat) : plainStr (decimal n) = true := by
  have := decimal_digits n
  simp only [plainStr, List.all_eq_true] at *
  intro b hb
  exact isDigit_plain b (this b hb)

end DC.Types
