import DC.Model.StrLit
import DC.Spec.LitSpec

/-! Lemmas for C09, string literals: two-level escaping and `readString (quote v) = v`. -/
namespace DC.Proofs.LitStr
open DC DC.Model.StrLit DC.Spec.LitSpec

/-! ## `escapeStringLiteral` is ClickHouse's escaping applied twice -/

theorem escapeByte_table : ∀ n, n < 256 →
    (chEscape (chEscapeByte (UInt8.ofNat n)) == escapeByte (UInt8.ofNat n)) = true := by decide +kernel

theorem escapeByte_eq (b : UInt8) : chEscape (chEscapeByte b) = escapeByte b := by
  have := escapeByte_table b.toNat b.toNat_lt
  rw [UInt8.ofNat_toNat] at this
  exact eq_of_beq this

theorem chEscape_append (a b : Bytes) : chEscape (a ++ b) = chEscape a ++ chEscape b := by
  simp [chEscape]

theorem chEscape_twice (v : Bytes) : chEscape (chEscape v) = escapeStringLiteral v := by
  induction v with
  | nil => rfl
  | cons b v ih =>
    have : chEscape (b :: v) = chEscapeByte b ++ chEscape v := by simp [chEscape]
    rw [this, chEscape_append, ih, escapeByte_eq]
    simp [escapeStringLiteral]

/-- the Literal payload printed for a string value is the specified two-level rendering, for every byte string. -/
theorem formatStringLiteral_eq_canonStr (v : Bytes) : formatStringLiteral v = canonStr v := by
  unfold formatStringLiteral canonStr
  rw [chEscape_append, chEscape_append, chEscape_twice]
  rfl

/-! ## `readString` inverts `quote` -/

theorem loop_done {s acc a r} (h : step s acc = .done a r) : loop s acc = (a, r) := by
  rw [loop]; split <;> simp_all

theorem loop_more {s acc a r} (h : step s acc = .more a r) : loop s acc = loop r a := by
  rw [loop]; split <;> simp_all

theorem ofNat_eq (b : UInt8) (n : Nat) (h : n = b.toNat) : UInt8.ofNat n = b := by
  rw [h, UInt8.ofNat_toNat]

theorem decode_ascii (b : UInt8) (t : Bytes) (h : b.toNat < 0x80) : decodeRune1 b t = (b.toNat, t) := by
  simp [decodeRune1, h]

theorem encode_ascii (b : UInt8) (h : b.toNat < 0x80) : encodeRune b.toNat = [b] := by
  have : b.toNat ≤ 0x7F := by omega
  simp [encodeRune, this]

/-- closing quote not followed by another quote. -/
theorem step_close (rest acc : Bytes) (h : rest.head? ≠ some 39) : step (39 :: rest) acc = .done acc rest := by
  have d : decodeRune1 39 rest = (39, rest) := decode_ascii 39 rest (by decide)
  simp only [step, d]
  cases rest with
  | nil => simp
  | cons c r =>
    have : c ≠ 39 := by simpa using h
    simp
    split
    · rename_i heq; cases heq; exact absurd rfl this
    · rfl

theorem step_bs_quote (s acc : Bytes) : step (92 :: 39 :: s) acc = .more (acc ++ [39]) s := by
  have d1 : decodeRune1 92 (39 :: s) = (92, 39 :: s) := decode_ascii 92 _ (by decide)
  have d2 : decodeRune1 39 s = (39, s) := decode_ascii 39 _ (by decide)
  simp [step, stepEscape, d1, d2, escapeOf, Gen.Escapes.readStringEscapes, encodeRune]

theorem step_bs_bs (s acc : Bytes) : step (92 :: 92 :: s) acc = .more (acc ++ [92]) s := by
  have d1 : decodeRune1 92 (92 :: s) = (92, 92 :: s) := decode_ascii 92 _ (by decide)
  have d2 : decodeRune1 92 s = (92, s) := decode_ascii 92 _ (by decide)
  simp [step, stepEscape, d1, d2, escapeOf, Gen.Escapes.readStringEscapes, List.lookup, encodeRune]

theorem step_plain (b : UInt8) (s acc : Bytes) (h1 : b ≠ 39) (h2 : b ≠ 92) (h3 : b.toNat < 0x80) :
    step (b :: s) acc = .more (acc ++ [b]) s := by
  have n1 : b.toNat ≠ 39 := fun h => h1 (UInt8.toNat_inj.mp h)
  have n2 : b.toNat ≠ 92 := fun h => h2 (UInt8.toNat_inj.mp h)
  simp [step, decode_ascii b s h3, n1, n2, encode_ascii b h3]

theorem hexDigit_table : ∀ n, n < 256 →
    ((hexDigit (n / 16)).toNat < 0x80 ∧ (hexDigit (n % 16)).toNat < 0x80 ∧
     hexValue (hexDigit (n / 16)).toNat * 16 + hexValue (hexDigit (n % 16)).toNat = n) := by decide +kernel

theorem step_hex (b c : UInt8) (s acc : Bytes) :
    step (hexEscape b ++ c :: s) acc = .more (acc ++ [b]) (c :: s) := by
  obtain ⟨a1, a2, a3⟩ := hexDigit_table b.toNat b.toNat_lt
  have d1 : decodeRune1 92 (120 :: hexDigit (b.toNat / 16) :: hexDigit (b.toNat % 16) :: c :: s) = (92, _) :=
    decode_ascii 92 _ (by decide)
  have d2 : decodeRune1 120 (hexDigit (b.toNat / 16) :: hexDigit (b.toNat % 16) :: c :: s) = (120, _) :=
    decode_ascii 120 _ (by decide)
  have d3 := decode_ascii (hexDigit (b.toNat / 16)) (hexDigit (b.toNat % 16) :: c :: s) a1
  have d4 := decode_ascii (hexDigit (b.toNat % 16)) (c :: s) a2
  simp only [hexEscape, List.cons_append, List.nil_append, step, d1, stepEscape, d2, stepHex, d3, d4, a3]
  simp

theorem isCont_iff (b : UInt8) : isCont b = true ↔ IsCont b.toNat := by
  simp [isCont, IsCont]

theorem step_utf8_2 (b b1 : UInt8) (s acc : Bytes) (h0 : 0xC2 ≤ b.toNat ∧ b.toNat ≤ 0xDF) (h1 : IsCont b1.toNat) :
    step (b :: b1 :: s) acc = .more (acc ++ [b, b1]) s := by
  have c1 : isCont b1 = true := (isCont_iff b1).mpr h1
  have hb : ¬ b.toNat < 0x80 := by omega
  obtain ⟨h1a, h1b⟩ := h1
  have d : decodeRune1 b (b1 :: s) = ((b.toNat - 0xC0) * 64 + (b1.toNat - 0x80), s) := by
    simp [decodeRune1, hb, h0, c1]
  have e : encodeRune ((b.toNat - 0xC0) * 64 + (b1.toNat - 0x80)) = [b, b1] := by
    have r1 : ¬ (b.toNat - 0xC0) * 64 + (b1.toNat - 0x80) ≤ 0x7F := by omega
    have r2 : (b.toNat - 0xC0) * 64 + (b1.toNat - 0x80) ≤ 0x7FF := by omega
    simp only [encodeRune, r1, r2, if_true, if_false]
    rw [ofNat_eq b _ (by omega), ofNat_eq b1 _ (by omega)]
  have n1 : ¬ (b.toNat - 0xC0) * 64 + (b1.toNat - 0x80) = 39 := by omega
  have n2 : ¬ (b.toNat - 0xC0) * 64 + (b1.toNat - 0x80) = 92 := by omega
  simp only [step, d, n1, n2, if_false, e]

theorem step_utf8_3 (b b1 b2 : UInt8) (s acc : Bytes) (h0 : ThreeLead b.toNat b1.toNat) (h2 : IsCont b2.toNat) :
    step (b :: b1 :: b2 :: s) acc = .more (acc ++ [b, b1, b2]) s := by
  have c2 : isCont b2 = true := (isCont_iff b2).mpr h2
  obtain ⟨h2a, h2b⟩ := h2
  have hb : ¬ b.toNat < 0x80 := by unfold ThreeLead IsCont at h0; omega
  have hb2 : ¬ (0xC2 ≤ b.toNat ∧ b.toNat ≤ 0xDF) := by unfold ThreeLead IsCont at h0; omega
  have hb3 : 0xE0 ≤ b.toNat ∧ b.toNat ≤ 0xEF := by unfold ThreeLead IsCont at h0; omega
  have hl : lo2 b.toNat ≤ b1.toNat ∧ b1.toNat ≤ hi2 b.toNat := by
    unfold ThreeLead IsCont at h0; unfold lo2 hi2; split <;> split <;> (try split) <;> (try split) <;> omega
  have hr : 0x80 ≤ b1.toNat ∧ b1.toNat ≤ 0xBF := by unfold ThreeLead IsCont at h0; omega
  have d : decodeRune1 b (b1 :: b2 :: s) =
      ((b.toNat - 0xE0) * 4096 + (b1.toNat - 0x80) * 64 + (b2.toNat - 0x80), s) := by
    simp [decodeRune1, hb, hb2, hb3, hl, c2]
  have e : encodeRune ((b.toNat - 0xE0) * 4096 + (b1.toNat - 0x80) * 64 + (b2.toNat - 0x80)) = [b, b1, b2] := by
    have r1 : ¬ (b.toNat - 0xE0) * 4096 + (b1.toNat - 0x80) * 64 + (b2.toNat - 0x80) ≤ 0x7F := by
      unfold ThreeLead IsCont at h0; omega
    have r2 : ¬ (b.toNat - 0xE0) * 4096 + (b1.toNat - 0x80) * 64 + (b2.toNat - 0x80) ≤ 0x7FF := by
      unfold ThreeLead IsCont at h0; omega
    have r3 : ¬ ((b.toNat - 0xE0) * 4096 + (b1.toNat - 0x80) * 64 + (b2.toNat - 0x80) > 0x10FFFF ∨
        (0xD800 ≤ (b.toNat - 0xE0) * 4096 + (b1.toNat - 0x80) * 64 + (b2.toNat - 0x80) ∧
         (b.toNat - 0xE0) * 4096 + (b1.toNat - 0x80) * 64 + (b2.toNat - 0x80) ≤ 0xDFFF)) := by
      unfold ThreeLead IsCont at h0; omega
    have r4 : (b.toNat - 0xE0) * 4096 + (b1.toNat - 0x80) * 64 + (b2.toNat - 0x80) ≤ 0xFFFF := by omega
    simp only [encodeRune, r1, r2, r3, r4, if_true, if_false]
    rw [ofNat_eq b _ (by omega), ofNat_eq b1 _ (by omega), ofNat_eq b2 _ (by omega)]
  have n1 : ¬ (b.toNat - 0xE0) * 4096 + (b1.toNat - 0x80) * 64 + (b2.toNat - 0x80) = 39 := by
    unfold ThreeLead IsCont at h0; omega
  have n2 : ¬ (b.toNat - 0xE0) * 4096 + (b1.toNat - 0x80) * 64 + (b2.toNat - 0x80) = 92 := by
    unfold ThreeLead IsCont at h0; omega
  simp only [step, d, n1, n2, if_false, e]

theorem step_utf8_4 (b b1 b2 b3 : UInt8) (s acc : Bytes) (h0 : FourLead b.toNat b1.toNat) (h2 : IsCont b2.toNat)
    (h3 : IsCont b3.toNat) :
    step (b :: b1 :: b2 :: b3 :: s) acc = .more (acc ++ [b, b1, b2, b3]) s := by
  have c2 : isCont b2 = true := (isCont_iff b2).mpr h2
  have c3 : isCont b3 = true := (isCont_iff b3).mpr h3
  obtain ⟨h2a, h2b⟩ := h2
  obtain ⟨h3a, h3b⟩ := h3
  have hb : ¬ b.toNat < 0x80 := by unfold FourLead IsCont at h0; omega
  have hb2 : ¬ (0xC2 ≤ b.toNat ∧ b.toNat ≤ 0xDF) := by unfold FourLead IsCont at h0; omega
  have hb3 : ¬ (0xE0 ≤ b.toNat ∧ b.toNat ≤ 0xEF) := by unfold FourLead IsCont at h0; omega
  have hb4 : 0xF0 ≤ b.toNat ∧ b.toNat ≤ 0xF4 := by unfold FourLead IsCont at h0; omega
  have hl : lo2 b.toNat ≤ b1.toNat ∧ b1.toNat ≤ hi2 b.toNat := by
    unfold FourLead IsCont at h0; unfold lo2 hi2; split <;> split <;> (try split) <;> (try split) <;> omega
  have hr : 0x80 ≤ b1.toNat ∧ b1.toNat ≤ 0xBF := by unfold FourLead IsCont at h0; omega
  have d : decodeRune1 b (b1 :: b2 :: b3 :: s) =
      ((b.toNat - 0xF0) * 262144 + (b1.toNat - 0x80) * 4096 + (b2.toNat - 0x80) * 64 + (b3.toNat - 0x80), s) := by
    simp [decodeRune1, hb, hb2, hb3, hb4, hl, c2, c3]
  have e : encodeRune ((b.toNat - 0xF0) * 262144 + (b1.toNat - 0x80) * 4096 + (b2.toNat - 0x80) * 64 + (b3.toNat - 0x80)) =
      [b, b1, b2, b3] := by
    have r1 : ¬ (b.toNat - 0xF0) * 262144 + (b1.toNat - 0x80) * 4096 + (b2.toNat - 0x80) * 64 + (b3.toNat - 0x80) ≤ 0x7F := by
      unfold FourLead IsCont at h0; omega
    have r2 : ¬ (b.toNat - 0xF0) * 262144 + (b1.toNat - 0x80) * 4096 + (b2.toNat - 0x80) * 64 + (b3.toNat - 0x80) ≤ 0x7FF := by
      unfold FourLead IsCont at h0; omega
    have r3 : ¬ ((b.toNat - 0xF0) * 262144 + (b1.toNat - 0x80) * 4096 + (b2.toNat - 0x80) * 64 + (b3.toNat - 0x80) > 0x10FFFF ∨
        (0xD800 ≤ (b.toNat - 0xF0) * 262144 + (b1.toNat - 0x80) * 4096 + (b2.toNat - 0x80) * 64 + (b3.toNat - 0x80) ∧
         (b.toNat - 0xF0) * 262144 + (b1.toNat - 0x80) * 4096 + (b2.toNat - 0x80) * 64 + (b3.toNat - 0x80) ≤ 0xDFFF)) := by
      unfold FourLead IsCont at h0; omega
    have r4 : ¬ (b.toNat - 0xF0) * 262144 + (b1.toNat - 0x80) * 4096 + (b2.toNat - 0x80) * 64 + (b3.toNat - 0x80) ≤ 0xFFFF := by
      unfold FourLead IsCont at h0; omega
    simp only [encodeRune, r1, r2, r3, r4, if_false]
    rw [ofNat_eq b _ (by omega), ofNat_eq b1 _ (by omega), ofNat_eq b2 _ (by omega), ofNat_eq b3 _ (by omega)]
  have n1 : ¬ (b.toNat - 0xF0) * 262144 + (b1.toNat - 0x80) * 4096 + (b2.toNat - 0x80) * 64 + (b3.toNat - 0x80) = 39 := by
    unfold FourLead IsCont at h0; omega
  have n2 : ¬ (b.toNat - 0xF0) * 262144 + (b1.toNat - 0x80) * 4096 + (b2.toNat - 0x80) * 64 + (b3.toNat - 0x80) = 92 := by
    unfold FourLead IsCont at h0; omega
  simp only [step, d, n1, n2, if_false, e]

/-- a well-formed multi-byte sequence of length `utf8Len` is consumed as one rune and written back unchanged. -/
theorem step_utf8 (b : UInt8) (t x acc : Bytes) (hn : utf8Len (b :: t) ≠ 0) :
    step ((b :: t).take (utf8Len (b :: t)) ++ x) acc = .more (acc ++ (b :: t).take (utf8Len (b :: t))) x := by
  unfold utf8Len at hn ⊢
  match t with
  | [] => simp at hn
  | b1 :: rest =>
    simp only at hn ⊢
    split at hn
    · rename_i h0
      split at hn
      · rename_i h1
        simp only [h0, and_self, if_true]
        rw [if_pos h1]
        exact step_utf8_2 b b1 x acc h0 h1
      · exact absurd rfl hn
    · rename_i h0
      split at hn
      · rename_i h3
        match rest with
        | [] => simp at hn
        | b2 :: r2 =>
          simp only at hn ⊢
          split at hn
          · rename_i h2
            simp only [h0, h3, if_true, if_false]
            rw [if_pos h2]
            exact step_utf8_3 b b1 b2 x acc h3 h2
          · exact absurd rfl hn
      · rename_i h3
        split at hn
        · rename_i h4
          match rest with
          | [] => simp at hn
          | [_] => simp at hn
          | b2 :: b3 :: r3 =>
            simp only at hn ⊢
            split at hn
            · rename_i h23
              simp only [h0, h3, h4, if_true, if_false]
              rw [if_pos h23]
              exact step_utf8_4 b b1 b2 b3 x acc h4 h23.1 h23.2
            · exact absurd rfl hn
        · exact absurd rfl hn

/-- the loop of readString on `quote v` followed by the closing quote reads exactly `v`. -/
theorem loop_quote (v rest acc : Bytes) (hrest : rest.head? ≠ some 39) :
    loop (quote v ++ 39 :: rest) acc = (acc ++ v, rest) := by
  induction v using quote.induct generalizing acc with
  | case1 =>
    rw [quote]
    simpa using loop_done (step_close rest acc hrest)
  | case2 t ih =>
    rw [quote]; simp only [if_true, List.cons_append]
    rw [loop_more (step_bs_quote _ acc), ih]; simp
  | case3 t h1 ih =>
    rw [quote]; simp only [h1, if_true, if_false, List.cons_append]
    rw [loop_more (step_bs_bs _ acc), ih]; simp
  | case4 b t h1 h2 h3 ih =>
    rw [quote]; simp only [h1, h2, h3, if_true, if_false, and_self, List.cons_append]
    have hlt : b.toNat < 0x80 := by
      have := h3.2; rw [UInt8.lt_iff_toNat_lt] at this; exact Nat.lt_trans this (by decide)
    rw [loop_more (step_plain b _ acc h1 h2 hlt), ih]; simp
  | case5 b t h1 h2 h3 n hn ih =>
    rw [quote]; simp only [h1, h2, h3, if_false]
    have hn' : utf8Len (b :: t) = 0 := hn
    simp only [hn', if_true, List.append_assoc]
    cases hq : quote t ++ 39 :: rest with
    | nil => simp at hq
    | cons c s =>
      rw [loop_more (step_hex b c s acc), ← hq, ih]; simp
  | case6 b t h1 h2 h3 n hn ih =>
    rw [quote]; simp only [h1, h2, h3, if_false]
    have hn' : ¬ utf8Len (b :: t) = 0 := hn
    simp only [hn', if_false, List.append_assoc]
    rw [loop_more (step_utf8 b t _ acc hn'), ih, List.append_assoc, List.take_append_drop]

/-- `readString` on `quote v ++ "'" ++ rest` returns the value `v` and leaves `rest`, for every byte string `v`
(`rest` must not begin with another quote, which would be read as the `''` escape). -/
theorem readString_quote (v rest : Bytes) (hrest : rest.head? ≠ some 39) :
    readString (quote v ++ 39 :: rest) = (v, rest) := by
  simpa [readString] using loop_quote v rest [] hrest

theorem decodeString_quote (v : Bytes) : decodeString (quote v) = v := by
  have := readString_quote v [] (by simp)
  simp [decodeString, this]

/-! ## the escape tables -/

theorem lookup_none_of_keys_lt (l : List (Nat × Nat)) (n c : Nat) (h : l.all (fun p => p.1 < n) = true) (hc : n ≤ c) :
    l.lookup c = none := by
  induction l with
  | nil => rfl
  | cons p l ih =>
    obtain ⟨k, v⟩ := p
    rw [List.all_cons, Bool.and_eq_true, decide_eq_true_eq] at h
    have hk : k < n := h.1
    have : (c == k) = false := by rw [beq_eq_false_iff_ne]; omega
    simp only [List.lookup, this]
    exact ih h.2

theorem escape_table_small : ∀ c, c < 128 → (c ∈ unestablished ∨ escapeOf c = decodeEscape c) := by decide +kernel

theorem escape_table_keys : Gen.Escapes.readStringEscapes.all (fun p => p.1 < 128) = true := by decide

/-- readString's escape switch is ClickHouse's table, on every character whose behaviour is established. -/
theorem escape_table (c : Nat) (h : c ∉ unestablished) : escapeOf c = decodeEscape c := by
  by_cases hc : c < 128
  · rcases escape_table_small c hc with h' | h'
    · exact absurd h' h
    · exact h'
  · have h1 : escapeOf c = none := lookup_none_of_keys_lt _ 128 c escape_table_keys (by omega)
    have h2 : decodeEscape c = none := by
      have ne : ∀ k, k < 128 → ¬ c = k := fun k hk => by omega
      simp only [decodeEscape, ne 39 (by decide), ne 34 (by decide), ne 92 (by decide), ne 110 (by decide), ne 116 (by decide),
        ne 114 (by decide), ne 48 (by decide), ne 97 (by decide), ne 98 (by decide), ne 102 (by decide), ne 118 (by decide),
        ne 101 (by decide), if_false]
    rw [h1, h2]

end DC.Proofs.LitStr
