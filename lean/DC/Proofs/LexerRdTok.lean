import DC.Proofs.LexerRdNum
import DC.Proofs.LexerTokenize

/-!
# `runL` of the reader-interface lexer is the pure lexer model: identifiers, operators, `$`, `NextToken`, `Tokenize`
-/
set_option linter.unusedSimpArgs false

namespace DC.LexerRd
open DC DC.Utf8 DC.Gen.Tokens DC.Lexer DC.Rd DC.Bufio
open DC.Rd.RdM (runL lrune lpeek)

theorem readIdentifierM_pure (f : Nat) (s : LState) (h : s.measure < f) (r : Tok × LState)
    (hr : readIdentifier s = .ok r) :
    runL (readIdentifierM f s.m) s.rest = (.ok (r.1, r.2.m), r.2.rest) := by
  unfold readIdentifier at hr
  unfold readIdentifierM
  rd_simp [] using_fuel h
  by_cases c1 : (s.ch = 120 ∨ s.ch = 88) ∧ peekChar s = 39
  · simp only [if_pos c1] at hr
    cases hr
    rd_simp [if_pos c1] using_fuel h
  · simp only [if_neg c1] at hr
    by_cases c2 : (s.ch = 98 ∨ s.ch = 66) ∧ peekChar s = 39
    · simp only [if_pos c2] at hr
      rd_simp [if_pos c2, if_neg c1] using_fuel h
      exact readBinaryStringM_pure f (readChar s) (by lex_fuel h) r hr
    · simp only [if_neg c2] at hr
      cases hr
      rd_simp [if_neg c2, if_neg c1] using_fuel h

theorem readAtM_pure (f : Nat) (s : LState) (h : s.measure < f) :
    runL (readAtM f s.m) s.rest = (.ok ((readAt s).1, (readAt s).2.m), (readAt s).2.rest) := by
  unfold readAtM readAt
  rd_simp [] using_fuel h
  split <;> rename_i c1 <;> rd_simp [c1] using_fuel h
  split <;> rename_i c2 <;> rd_simp [c2] using_fuel h

theorem two_pure (s : LState) (t : Tok) :
    runL (two s.m t) s.rest = (.ok (some (t, (readChar (readChar s)).m)), (readChar (readChar s)).rest) := by
  simp only [two, runL_bind, readCharM_pure, bindRes_ok, runL_pure]

theorem one_pure (s : LState) (t : Tok) :
    runL (one s.m t) s.rest = (.ok (some (t, (readChar s).m)), (readChar s).rest) := by
  simp only [one, runL_bind, readCharM_pure, bindRes_ok, runL_pure]

attribute [rd_pure] readAtM_pure two_pure one_pure

/-- the result of `readOperator` with the state projected -/
def opRes (o : Option (Tok × LState)) (s : LState) : Except Fail (Option (Tok × MState)) × Bytes :=
  match o with
  | some r => (.ok (some (r.1, r.2.m)), r.2.rest)
  | none => (.ok none, s.rest)

theorem readOperatorM_pure (s : LState) :
    runL (readOperatorM s.m) s.rest = opRes (readOperator s) s := by
  unfold readOperatorM readOperator
  simp only []
  repeat' split
  all_goals simp only [rd_pure, opRes, if_true, if_false, *]
  all_goals simp


theorem readDotM_pure (f : Nat) (s : LState) (h : s.measure < f) :
    runL (readDotM f s.m) s.rest = (.ok ((readDot s).1, (readDot s).2.m), (readDot s).2.rest) := by
  unfold readDotM readDot
  rd_simp [] using_fuel h
  split <;> rename_i c1 <;> rd_simp [c1] using_fuel h
  split <;> rename_i c2 <;> rd_simp [c2] using_fuel h

attribute [rd_pure] readDotM_pure

end DC.LexerRd
