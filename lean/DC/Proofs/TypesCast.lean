import DC.Proofs.TypesFormat
import DC.Proofs.TypesEsc

/-! C18: the two cast positions. -/
namespace DC.Types
open DC.Gen.Tokens

/-! ## the fuel of the entry points suffices -/

mutual
theorem cost_le (T : Ty) : cost T ≤ 3 * (tokens T).length + 1 := by
  match T with
  | .mk ws args =>
    cases args with
    | nil => simp [cost, costArgs]
    | cons a as =>
      have h1 := costArg_le a
      have h2 := costArgs_le as
      simp only [cost, costArgs, tokens, List.length_append, List.length_map, List.length_cons, List.length_nil]
      omega
theorem costArg_le (a : Arg) : costArg a ≤ 3 * (argTokens a).length + 2 := by
  match a with
  | .ty t => have := cost_le t; simp only [costArg, argTokens]; omega
  | .named n t => have := cost_le t; simp only [costArg, argTokens, List.length_cons]; omega
  | .num neg n => simp only [costArg]; omega
  | .str s => simp only [costArg]; omega
  | .enum s neg n => simp only [costArg]; omega
theorem costArgs_le (as : List Arg) : costArgs as ≤ 3 * (tailTokens as).length := by
  match as with
  | [] => simp [costArgs]
  | a :: as =>
    have h1 := costArg_le a
    have h2 := costArgs_le as
    simp only [costArgs, tailTokens, List.length_cons, List.length_append]
    omega
end

theorem fuel_ok (T : Ty) (rest : List Tok) : cost T ≤ fuelFor (tokens T ++ rest) := by
  have := cost_le T
  simp only [fuelFor, List.length_append]
  omega

/-! ## word tokens of a well-formed type are ASCII -/

theorem isIdentByte_ascii (b : UInt8) (h : isIdentByte b = true) : (b < 128) := by
  simp only [isIdentByte, Bool.or_eq_true, Bool.and_eq_true, decide_eq_true_eq, beq_iff_eq] at h
  rcases h with ((h | h) | h) | h
  · exact UInt8.lt_iff_toNat_lt.mpr (Nat.lt_of_le_of_lt (UInt8.le_iff_toNat_le.mp h.2) (by decide))
  · exact UInt8.lt_iff_toNat_lt.mpr (Nat.lt_of_le_of_lt (UInt8.le_iff_toNat_le.mp h.2) (by decide))
  · exact UInt8.lt_iff_toNat_lt.mpr (Nat.lt_of_le_of_lt (UInt8.le_iff_toNat_le.mp h.2) (by decide))
  · subst h; decide

theorem identLike_ascii (w : Bytes) (h : identLike w = true) : isAscii w = true := by
  simp only [identLike, Bool.and_eq_true, List.all_eq_true] at h
  simp only [isAscii, List.all_eq_true, decide_eq_true_eq]
  intro b hb
  exact isIdentByte_ascii b (h.2 b hb)

theorem wordsAscii_append (a b : List Tok) : wordsAscii (a ++ b) = (wordsAscii a && wordsAscii b) := by
  simp [wordsAscii]

theorem wordsAscii_fixed : wordsAscii [lparenTok] = true ∧ wordsAscii [rparenTok] = true ∧ wordsAscii [commaTok] = true ∧
    wordsAscii [eqTok] = true ∧ wordsAscii [minusTok] = true := by
  simp [wordsAscii, fixed_tok_facts, (not_word_kinds []).2.2, isWord_of_kind eqTok not_keyword_fixed.1 (by decide)]

theorem wordsAscii_numToks (neg : Bool) (n : Nat) : wordsAscii (numToks neg n) = true := by
  cases neg <;> simp [numToks, wordsAscii, (not_word_kinds (decimal n)).1, (not_word_kinds []).2.2]

mutual
theorem ascii_ty (T : Ty) (hwf : wfTy T = true) : wordsAscii (tokens T) = true := by
  match T with
  | .mk ws args =>
    have hws := wfTy_words _ hwf
    simp only [Ty.words, Ty.head] at hws
    generalize hw : ws.headD [] = w at hws
    subst hws
    have hid : identLike w = true := by
      cases args <;> (simp only [wfTy, Bool.and_eq_true] at hwf; first | exact hwf.1 | exact hwf)
    have hw1 : wordsAscii [wordTok w] = true := by simp [wordsAscii, identLike_ascii w hid]
    cases args with
    | nil => simpa [tokens_mk_nil] using hw1
    | cons a as =>
      simp only [wfTy, Bool.and_eq_true, wfArgs] at hwf
      have ha := ascii_arg _ a hwf.2.2.1
      have hta := ascii_tail _ as hwf.2.2.2
      rw [tokens_mk_cons]
      rw [show wordTok w :: lparenTok :: (argTokens a ++ tailTokens as ++ [rparenTok]) =
          [wordTok w] ++ ([lparenTok] ++ (argTokens a ++ (tailTokens as ++ [rparenTok]))) by simp]
      rw [wordsAscii_append, wordsAscii_append, wordsAscii_append, wordsAscii_append, hw1, wordsAscii_fixed.1, ha, hta,
        wordsAscii_fixed.2.1]
      rfl
theorem ascii_arg (named : Bool) (a : Arg) (hwf : wfArg named a = true) : wordsAscii (argTokens a) = true := by
  match a with
  | .ty t =>
    simp only [wfArg, Bool.and_eq_true] at hwf
    simpa [argTokens] using ascii_ty t hwf.1.1
  | .named n t =>
    simp only [wfArg, Bool.and_eq_true] at hwf
    have h1 : wordsAscii [wordTok n] = true := by simp [wordsAscii, identLike_ascii n hwf.1.1.1.2]
    have h2 := ascii_ty t hwf.1.2
    rw [argTokens, show wordTok n :: tokens t = [wordTok n] ++ tokens t from rfl, wordsAscii_append, h1, h2]; rfl
  | .num neg n => simpa [argTokens] using wordsAscii_numToks neg n
  | .str s => simp [argTokens, wordsAscii, (not_word_kinds s).2.1]
  | .enum s neg n =>
    rw [argTokens, show (⟨tSTRING, s⟩ :: eqTok :: numToks neg n : List Tok) = [⟨tSTRING, s⟩] ++ ([eqTok] ++ numToks neg n) from rfl,
      wordsAscii_append, wordsAscii_append, wordsAscii_numToks, wordsAscii_fixed.2.2.2.1]
    simp [wordsAscii, (not_word_kinds s).2.1]
theorem ascii_tail (named : Bool) (as : List Arg) (hwf : wfArgs named as = true) : wordsAscii (tailTokens as) = true := by
  match as with
  | [] => simp [tailTokens, wordsAscii]
  | a :: as =>
    simp only [wfArgs, Bool.and_eq_true] at hwf
    rw [tailTokens, show commaTok :: (argTokens a ++ tailTokens as) = [commaTok] ++ (argTokens a ++ tailTokens as) from rfl,
      wordsAscii_append, wordsAscii_append, ascii_arg named a hwf.1, ascii_tail named as hwf.2, wordsAscii_fixed.2.2.1]
    rfl
end


/-! ## the type line -/

theorem literal_consts : B "Literal \\'" = B "Literal " ++ [92, 39] ∧ B "\\'" = [92, 39] ∧ escByte 39 = [92, 39] := by decide

theorem castLine_eq (T : Ty) : castLine T = B "Literal " ++ [92, 39] ++ esc2 (canonTy T) ++ [92, 39] := by
  simp only [castLine, showLit, quote]
  rw [show (39 :: esc (canonTy T) ++ [39] : Bytes) = [39] ++ (esc (canonTy T) ++ [39]) from rfl, esc_append, esc_append]
  simp [esc, literal_consts, esc2]

theorem typeLine_ok (T : Ty) (hwf : wfTy T = true) : typeLine (some (astOf T)) = .text (castLine T) := by
  rw [castLine_eq]
  match T with
  | .mk ws args =>
    have hws := wfTy_words _ hwf
    simp only [Ty.words, Ty.head] at hws
    generalize hw : ws.headD [] = w at hws
    subst hws
    cases args with
    | nil =>
      simp [typeLine, formatDataType?, astOf, astArgs, formatDataType, DT.params, joinWords, canonTy, escapeStringLiteral_eq,
        literal_consts]
    | cons a as =>
      have h := format_ty _ hwf
      simp only [typeLine, formatDataType?, h]
      simp [astOf, astArgs, DT.params, literal_consts]

/-! ## the two cast positions -/

theorem cast_consts :
    (tCAST != tCAST) = false ∧ (tLPAREN != tLPAREN) = false ∧ (xTok.kind != tIDENT) = false ∧ startsWithAtAt xTok.val = false ∧
    (tAS != tAS) = false ∧ (tCOLONCOLON != tCOLONCOLON) = false ∧ (lparenTok.kind == tAS) = false ∧ (lparenTok.kind == tCOMMA) = false ∧
    (rparenTok.kind == tAS) = false ∧ (rparenTok.kind == tCOMMA) = false := by decide

theorem castFn_ok (T : Ty) (hwf : wfTy T = true) : castFnText (tokens T) = .shown (castLine T) [] := by
  obtain ⟨tl, htl, hcur⟩ := tokens_shape T hwf [rparenTok]
  have hpk : (((peek (tokens T ++ [rparenTok])).kind == tAS || (peek (tokens T ++ [rparenTok])).kind == tCOMMA)) = false := by
    rw [htl, peek_cons]
    rcases hcur with h | h <;> rw [h] <;> simp [cast_consts]
  have hparse := parse_ty T hwf (fuelFor (tokens T ++ [rparenTok])) [rparenTok] (fuel_ok T _) (by simp [fixed_tok_facts])
  simp only [castFnText, ascii_ty T hwf, Bool.not_true, Bool.false_eq_true, if_false, castFn, List.cons_append, List.nil_append,
    cur_cons, adv_cons, peek_cons, cast_consts, Bool.or_self, hpk, Bool.and_false, hparse, finishCast, comma_rparen_kinds, if_true,
    typeLine_ok T hwf]

theorem castOp_ok (T : Ty) (hwf : wfTy T = true) (rest : List Tok) (hr : safeFollow (cur rest) = true) :
    castOp ([xTok, ⟨tCOLONCOLON, [58, 58]⟩] ++ tokens T ++ rest) = .shown (castLine T) rest := by
  have hparse := parse_ty T hwf (fuelFor (tokens T ++ rest)) rest (fuel_ok T _) hr
  simp only [castOp, List.cons_append, List.nil_append, cur_cons, adv_cons, peek_cons, cast_consts, Bool.or_self,
    Bool.false_eq_true, if_false, hparse, finishCast, typeLine_ok T hwf]

theorem castOpText_ok (T : Ty) (hwf : wfTy T = true) : castOpText (tokens T) = .shown (castLine T) [] := by
  have h := castOp_ok T hwf [] (by simp [fixed_tok_facts])
  simp only [List.append_nil] at h
  simp only [castOpText, ascii_ty T hwf, Bool.not_true, Bool.false_eq_true, if_false, h]

end DC.Types
