import DC.Proofs.SkelBits

/-! Soundness of the abstract interpreter `ana` of `DC.Model.Skel` with respect to the big-step semantics,
    the contract theorem, loop progress and the iteration bound (C02). -/

namespace DC.Model.Skel

variable {P : Prog} {ks : List Nat}

/-- the cursor never moves back -/
theorem exec_mono {c i o j} (h : Exec P ks c i o j) : i ≤ j := by
  induction h with
  | next => split <;> omega
  | call h _ _ => exact h
  | seqN _ _ ih1 ih2 => omega
  | loopIter _ _ _ ih1 ih2 => omega
  | guardMoved _ _ _ ih1 ih2 => omega
  | _ => first | exact Nat.le_refl _ | assumption

/-- the cursor never passes the final `EOF` -/
theorem exec_le_len {c i o j} (h : Exec P ks c i o j) : i ≤ ks.length → j ≤ ks.length := by
  induction h with
  | next => intro h; split <;> omega
  | call _ h _ => intro _; exact h
  | seqN _ _ ih1 ih2 => intro h; exact ih2 (ih1 h)
  | loopIter _ _ _ ih1 ih2 => intro h; exact ih2 (ih1 h)
  | guardStuck _ _ ih1 ih2 => intro h; exact ih2 h
  | guardMoved _ _ _ ih1 ih2 => intro h; exact ih2 (ih1 h)
  | _ => first | exact id | assumption

/-- what `funOK` establishes about one terminating run of the body of `f` -/
theorem funOK_spec {f i o j} (hf : funOK P f = true) (hks : WF ks)
    (ih : ∀ i0 st, Desc ks i0 i st → Desc ks i0 j (pick (ana P (P.body f) st) o)) :
    ((P.advOf f).testBit (cur ks i) = true → i ≠ j) ∧
    (o ≠ .ret .ff → (P.tsetOf f).testBit (cur ks j) = true) ∧
    (o ≠ .ret .tt → (P.fsetOf f).testBit (cur ks j) = true) := by
  unfold funOK at hf
  simp only [Bool.and_eq_true, List.all_eq_true, beq_iff_eq] at hf
  obtain ⟨⟨h1, h2⟩, h3⟩ := hf
  have hcur := cur_lt hks
  have hsub : ∀ (T : TokSet) (s : St), (s.1 ||| s.2) &&& compl T = 0 → ∀ i0, Desc ks i0 j s → T.testBit (cur ks j) = true := by
    intro T s hz i0 hd
    cases hb : T.testBit (cur ks j) with
    | true => rfl
    | false =>
      have hbit : ((s.1 ||| s.2) &&& compl T).testBit (cur ks j) = true := by
        rw [Nat.testBit_and, compl_testBit (hcur j), hb, Nat.testBit_or]
        rcases hd with ⟨_, h⟩ | ⟨_, h⟩ <;> simp [h]
      rw [hz] at hbit; simp at hbit
  refine ⟨?_, ?_, ?_⟩
  · intro hadv hij
    have hd : Desc ks i i (P.advOf f &&& ALL, 0) := by
      left; exact ⟨rfl, by simp [Nat.testBit_and, hadv, all_testBit (hcur i)]⟩
    obtain ⟨s, hs, hds⟩ := pick_mem_chans (skipT := false) (skipF := false) (fun _ => rfl) (fun _ => rfl) (ih i _ hd)
    have hz := h1 s hs
    rcases hds with ⟨_, hb⟩ | ⟨hlt, _⟩
    · rw [hz] at hb; simp at hb
    · omega
  · intro ho
    have hd : Desc ks i i (ALL, 0) := by left; exact ⟨rfl, all_testBit (hcur i)⟩
    obtain ⟨s, hs, hds⟩ := pick_mem_chans (skipT := false) (skipF := true) (fun _ => rfl) (fun h => (ho h).elim) (ih i _ hd)
    exact hsub _ s (h2 s hs) i hds
  · intro ho
    have hd : Desc ks i i (ALL, 0) := by left; exact ⟨rfl, all_testBit (hcur i)⟩
    obtain ⟨s, hs, hds⟩ := pick_mem_chans (skipT := true) (skipF := false) (fun h => (ho h).elim) (fun _ => rfl) (ih i _ hd)
    exact hsub _ s (h3 s hs) i hds

/-- **Soundness of the analysis.**  If all contracts of `P` check, then for every terminating run of `c` from index `i`
    to index `j` ending in the way `o`, and every abstract state `st` describing `i` relative to a reference point `i0`,
    the abstract state computed for `o` describes `j` relative to `i0`. -/
theorem ana_sound (hP : ∀ f, funOK P f = true) (hks : WF ks) {c i o j} (h : Exec P ks c i o j) :
    ∀ i0 st, Desc ks i0 i st → Desc ks i0 j (pick (ana P c st) o) := by
  induction h with
  | skip => intro i0 st hd; simpa [ana, pick] using hd
  | @next i =>
    intro i0 st hd
    simp only [ana, pick]
    have hA := desc_anyA hd
    by_cases hi : i < ks.length
    · simp only [hi, if_true]
      right
      have := hd.le
      exact ⟨by omega, by simp [hA, all_testBit (cur_lt hks _)]⟩
    · simp only [hi, if_false]
      rcases hd with ⟨h1, h2⟩ | ⟨h1, h2⟩
      · left
        refine ⟨h1, ?_⟩
        have he := cur_eof (ks := ks) (i := i) (by omega)
        simp only [Nat.testBit_and, h2, Bool.true_and]
        rw [he, bit_testBit]; simp
      · right; exact ⟨h1, by simp [hA, all_testBit (cur_lt hks _)]⟩
  | @assume S i hS =>
    intro i0 st hd
    simp only [ana, pick]
    exact desc_meet hd hS
  | @call adv i j hij _ hadv =>
    intro i0 st hd
    simp only [ana, pick]
    exact call_sound hks hd hij hadv (all_testBit (cur_lt hks _))
  | @callF f v i o j hex hcompat ih =>
    intro i0 st hd
    simp only [ana, pick]
    obtain ⟨s1, s2, s3⟩ := funOK_spec (hP f) hks ih
    have hij := exec_mono hex
    refine call_sound hks hd hij (fun hb => by have := s1 hb; omega) ?_
    cases v with
    | unk => exact all_testBit (cur_lt hks _)
    | tt => exact s2 hcompat
    | ff => exact s3 hcompat
  | @seqN a b i j k o _ _ ih1 ih2 =>
    intro i0 st hd
    have h1 := ih1 i0 st hd
    simp only [pick] at h1
    have h2 := ih2 i0 _ h1
    simp only [ana]
    by_cases ho : o = .norm
    · subst ho; simpa [pick, R.joinX] using h2
    · exact pick_joinX_r ho h2
  | @seqX a b i j o hne _ ih =>
    intro i0 st hd
    simp only [ana]
    exact pick_joinX_l hne (ih i0 st hd)
  | altL _ ih => intro i0 st hd; simp only [ana]; exact pick_join_l (ih i0 st hd)
  | altR _ ih => intro i0 st hd; simp only [ana]; exact pick_join_r (ih i0 st hd)
  | cont => intro i0 st hd; simpa [ana, pick] using hd
  | @ret v i => intro i0 st hd; cases v <;> simpa [ana, pick, retR] using hd
  | @jump l i =>
    intro i0 st hd
    simp only [ana, pick, jget, if_true]
    exact desc_join_l hd
  | @blockJ l c i j _ ih =>
    intro i0 st hd
    have h1 := ih i0 st hd
    simp only [pick] at h1
    simp only [ana, pick]
    exact desc_join_r h1
  | @blockX l c i o j hne _ ih =>
    intro i0 st hd
    have h1 := ih i0 st hd
    simp only [ana]
    cases o with
    | norm => simp only [pick] at h1 ⊢; exact desc_join_l h1
    | cont => simpa [pick] using h1
    | ret v => cases v <;> simpa [pick] using h1
    | jump l' =>
      simp only [pick] at h1 ⊢
      have : l' ≠ l := by intro h; exact hne (by rw [h])
      rw [jget_jdrop_ne this]; exact h1
  | @loopIter c i o j o' k hex _ _ _ ih2 =>
    intro i0 st hd
    have hw := desc_widen_mono hks hd (exec_mono hex)
    have h2 := ih2 i0 _ hw
    simp only [ana, widen_idem] at h2
    simpa [ana] using h2
  | @loopExit c i o j _ hn hc ih =>
    intro i0 st hd
    have hw := desc_widen_mono hks hd (Nat.le_refl i)
    have h1 := ih i0 _ hw
    simp only [ana]
    cases o with
    | norm => exact (hn rfl).elim
    | cont => exact (hc rfl).elim
    | ret v => cases v <;> simpa [pick] using h1
    | jump l => simpa [pick] using h1
  | @guardStuck c a b i o k _ _ ih1 ih2 =>
    intro i0 st hd
    have h1 := ih1 i0 st hd
    simp only [pick] at h1
    have h2 := ih2 i0 _ h1
    simp only [ana]
    by_cases ho : o = .norm
    · subst ho; simp only [pick, R.joinX] at h2 ⊢; exact desc_join_l h2
    · exact pick_joinX_r ho (pick_join_l h2)
  | @guardMoved c a b i j o k hex hne _ ih1 ih2 =>
    intro i0 st hd
    have h1 := ih1 i0 st hd
    simp only [pick] at h1
    have hij := exec_mono hex
    have hi0 := hd.le
    have hm : Desc ks i0 j (0, (ana P c st).norm.2) := by
      rcases h1 with ⟨he, _⟩ | ⟨hlt, hb⟩
      · omega
      · right; exact ⟨hlt, hb⟩
    have h2 := ih2 i0 _ hm
    simp only [ana]
    by_cases ho : o = .norm
    · subst ho; simp only [pick, R.joinX] at h2 ⊢; exact desc_join_r h2
    · exact pick_joinX_r ho (pick_join_r h2)
  | @guardX c a b i o j hne _ ih =>
    intro i0 st hd
    simp only [ana]
    exact pick_joinX_l hne (ih i0 st hd)

/-- `progOK` checks every function index (indices beyond the table have the trivial body and contract) -/
def Prog.sized (P : Prog) : Bool :=
  P.adv.size == P.funs.size && P.tset.size == P.funs.size && P.fset.size == P.funs.size

theorem funOK_beyond {f : Nat} (hs : P.sized = true) (hf : P.funs.size ≤ f) : funOK P f = true := by
  unfold Prog.sized at hs
  simp only [Bool.and_eq_true, beq_iff_eq] at hs
  obtain ⟨⟨ha, ht⟩, hfs⟩ := hs
  have hb : P.body f = .skip := by
    unfold Prog.body; rw [Array.getD_eq_getD_getElem?, Array.getElem?_eq_none (by omega)]; rfl
  have h1 : P.advOf f = 0 := by
    unfold Prog.advOf; rw [Array.getD_eq_getD_getElem?, Array.getElem?_eq_none (by omega)]; rfl
  have h2 : P.tsetOf f = ALL := by
    unfold Prog.tsetOf; rw [Array.getD_eq_getD_getElem?, Array.getElem?_eq_none (by omega)]; rfl
  have h3 : P.fsetOf f = ALL := by
    unfold Prog.fsetOf; rw [Array.getD_eq_getD_getElem?, Array.getElem?_eq_none (by omega)]; rfl
  unfold funOK
  rw [hb, h1, h2, h3]
  simp only [ana]
  decide +kernel

theorem progOK_all (hs : P.sized = true) (h : progOK P = true) : ∀ f, funOK P f = true := by
  intro f
  by_cases hf : f < P.funs.size
  · unfold progOK at h
    rw [List.all_eq_true] at h
    exact h f (List.mem_range.mpr hf)
  · exact funOK_beyond hs (by omega)

theorem all_range' {p : Nat → Bool} {lo n : Nat} (h : (List.range' lo n).all p = true) :
    ∀ f, lo ≤ f → f < lo + n → p f = true := by
  intro f h1 h2
  rw [List.all_eq_true] at h
  exact h f (by rw [List.mem_range'_1]; omega)

/-- **Contracts are sound.**  If every function's contract checks against its skeleton body (assuming the callees'
    contracts), then every terminating call of `f` never moves the cursor back, advances it when entered with
    `cur ∈ adv f`, and leaves `cur ∈ tset f` / `fset f` according to its answer.  Recursion is covered: the proof is by
    induction on the derivation of the run, so a callee's run is always a strict sub-derivation. -/
theorem contracts_sound (hP : ∀ f, funOK P f = true) (hks : WF ks) {f i o j}
    (h : Exec P ks (P.body f) i o j) :
    i ≤ j ∧ ((P.advOf f).testBit (cur ks i) = true → i < j) ∧
    (o ≠ .ret .ff → (P.tsetOf f).testBit (cur ks j) = true) ∧
    (o ≠ .ret .tt → (P.fsetOf f).testBit (cur ks j) = true) := by
  have hij := exec_mono h
  obtain ⟨s1, s2, s3⟩ := funOK_spec (hP f) hks (fun i0 st hd => ana_sound hP hks h i0 st hd)
  exact ⟨hij, fun hb => by have := s1 hb; omega, s2, s3⟩

/-- **Progress of a certified loop body.**  Every terminating run of a certified body that reaches the back edge
    (falls through, or `continue`s) has strictly increased the token index. -/
theorem loop_progress (hP : ∀ f, funOK P f = true) (hks : WF ks) {c i o j}
    (hok : loopOK P c = true) (h : Exec P ks c i o j) (ho : o = .norm ∨ o = .cont) : i < j := by
  have hd : Desc ks i i (ALL, 0) := by left; exact ⟨rfl, all_testBit (cur_lt hks i)⟩
  have hs := ana_sound hP hks h i _ hd
  unfold loopOK at hok
  simp only [Bool.and_eq_true, beq_iff_eq] at hok
  rcases ho with rfl | rfl
  · simp only [pick] at hs
    rcases hs with ⟨_, hb⟩ | ⟨hlt, _⟩
    · rw [hok.1] at hb; simp at hb
    · exact hlt
  · simp only [pick] at hs
    rcases hs with ⟨_, hb⟩ | ⟨hlt, _⟩
    · rw [hok.2] at hb; simp at hb
    · exact hlt

/-- the same for a body entered under a loop condition that guarantees `cur ∈ S` -/
theorem loop_progress_from (hP : ∀ f, funOK P f = true) (hks : WF ks) {S body i o j}
    (hok : loopOKFrom P S body = true) (hcond : S.testBit (cur ks i) = true)
    (h : Exec P ks body i o j) (ho : o = .norm ∨ o = .cont) : i < j := by
  have hd : Desc ks i i (S &&& ALL, 0) := by
    left; exact ⟨rfl, by simp [Nat.testBit_and, hcond, all_testBit (cur_lt hks i)]⟩
  have hs := ana_sound hP hks h i _ hd
  unfold loopOKFrom at hok
  simp only [Bool.and_eq_true, beq_iff_eq] at hok
  rcases ho with rfl | rfl
  · simp only [pick] at hs
    rcases hs with ⟨_, hb⟩ | ⟨hlt, _⟩
    · rw [hok.1] at hb; simp at hb
    · exact hlt
  · simp only [pick] at hs
    rcases hs with ⟨_, hb⟩ | ⟨hlt, _⟩
    · rw [hok.2] at hb; simp at hb
    · exact hlt

/-! ### iteration bound -/

/-- `BackEdges P ks c i n j`: `n` consecutive iterations of `for { c }`, each reaching the back edge,
    take the cursor from `i` to `j` -/
inductive BackEdges (P : Prog) (ks : List Nat) (c : Cmd) : Nat → Nat → Nat → Prop
  | zero {i} : BackEdges P ks c i 0 i
  | step {i o j n k} : Exec P ks c i o j → (o = .norm ∨ o = .cont) → BackEdges P ks c j n k →
      BackEdges P ks c i (n + 1) k

/-- `LoopRun P ks c i n o j`: `for { c }` entered at `i` executes its body exactly `n` times and is left in the way `o` at `j` -/
inductive LoopRun (P : Prog) (ks : List Nat) (c : Cmd) : Nat → Nat → Out → Nat → Prop
  | exit {i o j} : Exec P ks c i o j → o ≠ .norm → o ≠ .cont → LoopRun P ks c i 1 o j
  | iter {i o j n o' k} : Exec P ks c i o j → (o = .norm ∨ o = .cont) → LoopRun P ks c j n o' k →
      LoopRun P ks c i (n + 1) o' k

theorem backedges_bounded (hP : ∀ f, funOK P f = true) (hks : WF ks) {c i n j}
    (hok : loopOK P c = true) (h : BackEdges P ks c i n j) : i ≤ ks.length → i + n ≤ j ∧ j ≤ ks.length := by
  induction h with
  | zero => intro h; exact ⟨Nat.le_refl _, h⟩
  | step hex ho _ ih =>
    intro hi
    have hlt := loop_progress hP hks hok hex ho
    have hle := exec_le_len hex hi
    have := ih hle
    omega

/-- **Iteration bound.**  A certified loop entered at token index `i` of a stream of `ks.length` tokens (plus the final
    `EOF`) executes its body at most `ks.length - i + 1` times: at most `ks.length - i` iterations reach the back edge,
    and one more may leave the loop. -/
theorem loops_bounded (hP : ∀ f, funOK P f = true) (hks : WF ks) {c i n o j}
    (hok : loopOK P c = true) (h : LoopRun P ks c i n o j) : i ≤ ks.length → n + i ≤ ks.length + 1 := by
  induction h with
  | exit _ _ _ => intro h; omega
  | iter hex ho _ ih =>
    intro hi
    have hlt := loop_progress hP hks hok hex ho
    have hle := exec_le_len hex hi
    have := ih hle
    omega

/-- every terminating run of `loop c` in the semantics is such a counted run -/
theorem exec_loop_run {c i o j} (h : Exec P ks (.loop c) i o j) : ∃ n, LoopRun P ks c i n o j := by
  generalize hc : Cmd.loop c = lc at h
  induction h with
  | loopIter hex ho _ _ ih2 =>
    cases hc
    obtain ⟨n, hn⟩ := ih2 rfl
    exact ⟨n + 1, .iter hex ho hn⟩
  | loopExit hex hn hcn _ =>
    cases hc
    exact ⟨1, .exit hex hn hcn⟩
  | _ => cases hc

end DC.Model.Skel
