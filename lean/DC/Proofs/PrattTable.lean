import DC.Spec.PrecSpec

/-!
# C08: the link between the generated precedence table (`DC.Gen.Prec`) and the specification's levels

`tableWellOrdered` is the only place where the generated numbers are looked at (by `decide`, in `DC/Props/C08.lean`).
Everything below, and every other C08 proof, uses the table only through a hypothesis `T : tableWellOrdered genTable`:
if the Go constants or the `precedence()` switch change, either `decide` fails or all proofs still check.
-/
namespace DC.Proofs.Pratt
open DC.Gen DC.Model.Pratt DC.Spec.PrecSpec

/-- the data of `DC.Gen.Prec` that C08 depends on -/
structure PrecTable where
  LOWEST : Nat
  OR_PREC : Nat
  AND_PREC : Nat
  NOT_PREC : Nat
  COMPARE : Nat
  CONCAT_PREC : Nat
  ADD_PREC : Nat
  MUL_PREC : Nat
  UNARY : Nat
  table : List (Nat × Nat)
  dflt : Nat

/-- the generated table -/
def genTable : PrecTable where
  LOWEST := Prec.LOWEST
  OR_PREC := Prec.OR_PREC
  AND_PREC := Prec.AND_PREC
  NOT_PREC := Prec.NOT_PREC
  COMPARE := Prec.COMPARE
  CONCAT_PREC := Prec.CONCAT_PREC
  ADD_PREC := Prec.ADD_PREC
  MUL_PREC := Prec.MUL_PREC
  UNARY := Prec.UNARY
  table := Prec.precTable
  dflt := Prec.precDefault

/-- `precedence(tok)` read off a table -/
def PrecTable.prec (t : PrecTable) (kind : Nat) : Nat := (t.table.lookup kind).getD t.dflt

/-- the Go constant that stands for a level of the specification (0 = LOWEST, 1 = OR, …, 8 = UNARY) -/
def PrecTable.ofLevel (t : PrecTable) : Nat → Nat
  | 0 => t.LOWEST
  | 1 => t.OR_PREC
  | 2 => t.AND_PREC
  | 3 => t.NOT_PREC
  | 4 => t.COMPARE
  | 5 => t.CONCAT_PREC
  | 6 => t.ADD_PREC
  | 7 => t.MUL_PREC
  | _ => t.UNARY

/-- The obligation a changed precedence constant must break:
LOWEST < OR < AND < NOT < COMPARE < CONCAT < ADD < MUL < UNARY, every operator token of the fragment is mapped by
`precedence()` to the constant of its class, and `)` ends an expression. -/
def tableWellOrdered (t : PrecTable) : Prop :=
  t.LOWEST < t.OR_PREC ∧ t.OR_PREC < t.AND_PREC ∧ t.AND_PREC < t.NOT_PREC ∧ t.NOT_PREC < t.COMPARE ∧
  t.COMPARE < t.CONCAT_PREC ∧ t.CONCAT_PREC < t.ADD_PREC ∧ t.ADD_PREC < t.MUL_PREC ∧ t.MUL_PREC < t.UNARY ∧
  (∀ o ∈ BinOp.all, t.prec o.kind = t.ofLevel (level o)) ∧
  t.prec Tokens.tRPAREN = t.LOWEST

instance (t : PrecTable) : Decidable (tableWellOrdered t) := by
  unfold tableWellOrdered; infer_instance

/-- the Go number of a specification level -/
def gen (ℓ : Nat) : Nat := genTable.ofLevel ℓ

theorem gen_lowest : Prec.LOWEST = gen 0 := rfl
theorem gen_not : Prec.NOT_PREC = gen lvNot := rfl
theorem gen_unary : Prec.UNARY = gen lvUnary := rfl

theorem mem_all (o : BinOp) : o ∈ BinOp.all := by cases o <;> decide

theorem level_le (o : BinOp) : level o ≤ 7 := by cases o <;> decide
theorem level_pos (o : BinOp) : 1 ≤ level o := by cases o <;> decide

section
variable (T : tableWellOrdered genTable)
include T

theorem prec_op (o : BinOp) : precedence o.kind = gen (level o) :=
  T.2.2.2.2.2.2.2.2.1 o (mem_all o)

theorem prec_rparen : precedence Tokens.tRPAREN = gen 0 := T.2.2.2.2.2.2.2.2.2

theorem gen_step : ∀ ℓ, ℓ < 8 → gen ℓ < gen (ℓ + 1)
  | 0, _ => T.1
  | 1, _ => T.2.1
  | 2, _ => T.2.2.1
  | 3, _ => T.2.2.2.1
  | 4, _ => T.2.2.2.2.1
  | 5, _ => T.2.2.2.2.2.1
  | 6, _ => T.2.2.2.2.2.2.1
  | 7, _ => T.2.2.2.2.2.2.2.1
  | n + 8, h => absurd h (by omega)

theorem gen_lt {ℓ m : Nat} (h : ℓ < m) (hm : m ≤ 8) : gen ℓ < gen m := by
  induction m with
  | zero => omega
  | succ m ih =>
    have hs := gen_step T m (by omega)
    by_cases hlm : ℓ = m
    · subst hlm; exact hs
    · exact Nat.lt_trans (ih (by omega) (by omega)) hs

theorem gen_le {ℓ m : Nat} (h : ℓ ≤ m) (hm : m ≤ 8) : gen ℓ ≤ gen m := by
  by_cases hlm : ℓ = m
  · subst hlm; exact Nat.le_refl _
  · exact Nat.le_of_lt (gen_lt T (by omega) hm)

end

end DC.Proofs.Pratt
