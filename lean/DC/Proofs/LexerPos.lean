import DC.Proofs.LexerTokenize

/-!
# Positions (C13)

`posOf b k` is the specification: walk the runes of `b` (Go's `utf8.DecodeRune`, nothing of the lexer) and
answer the 1-based line and the 1-based rune column of the rune whose last byte is byte number `k` (1-based),
a `'\n'` rune belonging to the line it ends. `PosInv b s` ties a lexer state to it.
-/
namespace DC.Lexer
open DC.Utf8 DC.Gen.Tokens

/-- scan `l` for the rune that contains byte number `k` (1-based, relative to `l`); `(line, col)` is the
position of the first rune of `l`. -/
def posFrom (l : Bytes) (k : Nat) (line col : Nat) : Nat × Nat :=
  if h : l = [] then (line, col)
  else
    let d := decodeRune l
    if k ≤ d.2 then (line, col)
    else posFrom (l.drop d.2) (k - d.2) (if d.1 = 10 then line + 1 else line) (if d.1 = 10 then 1 else col + 1)
termination_by l.length
decreasing_by
  cases l with
  | nil => exact absurd rfl h
  | cons a t =>
    have := decodeRune_size_pos a t
    simp only [List.length_drop, List.length_cons]
    omega

/-- (line, column) of the rune that ends at byte `k` of `b` (first byte = 1): line = 1 + number of `'\n'`
runes strictly before it, column = 1 + number of runes between the last such `'\n'` and it. -/
def posOf (b : Bytes) (k : Nat) : Nat × Nat := posFrom b k 1 1

/-- position of the rune after the current one. -/
def nextLine (s : LState) : Nat := if s.ch = 10 then s.line + 1 else s.line
def nextCol (s : LState) : Nat := if s.ch = 10 then 1 else s.col + 1

/-- the state before the `readChar` of `New`. -/
def initState (b : Bytes) : LState := { rest := b, ch := 0, off := 0, line := 1, col := 0, eof := false }

theorem new_eq (b : Bytes) : new b = readChar (initState b) := rfl

/-- `off` bytes of `b` have been consumed, `rest` is what is left, `(line, col)` is `posOf b off`, and the
specification scan for any later byte passes through this state. -/
structure PosInv (b : Bytes) (s : LState) : Prop where
  off_le : s.off ≤ b.length
  rest_eq : s.rest = b.drop s.off
  eof_rest : s.eof = true → s.rest = []
  pos_eq : 1 ≤ s.off → (s.line, s.col) = posOf b s.off
  through : ∀ k, s.off < k → k ≤ b.length →
    posOf b k = posFrom s.rest (k - s.off) (nextLine s) (nextCol s)

theorem PosInv.off_eq_of_rest_nil {b : Bytes} {s : LState} (h : PosInv b s) (hr : s.rest = []) :
    s.off = b.length := by
  have h1 := h.rest_eq
  rw [hr] at h1
  have h2 : (b.drop s.off).length = 0 := by rw [← h1]; rfl
  rw [List.length_drop] at h2
  have := h.off_le
  omega

theorem PosInv.init (b : Bytes) : PosInv b (initState b) where
  off_le := Nat.zero_le _
  rest_eq := rfl
  eof_rest := by intro h; cases h
  pos_eq := by intro h; simp [initState] at h
  through := by intro k _ _; rfl

theorem PosInv.readChar {b : Bytes} {s : LState} (h : PosInv b s) : PosInv b (readChar s) := by
  unfold DC.Lexer.readChar
  split
  · -- already at EOF: only `ch` changes
    rename_i he
    have hn := h.off_eq_of_rest_nil (h.eof_rest he)
    exact ⟨h.off_le, h.rest_eq, h.eof_rest, h.pos_eq, by intro k h1 h2; simp only [] at h1; omega⟩
  · split
    · -- EOF reached now
      rename_i he hr
      have hr' : s.rest = [] := by simpa using hr
      have hn := h.off_eq_of_rest_nil hr'
      exact ⟨h.off_le, h.rest_eq, fun _ => hr', h.pos_eq, by intro k h1 h2; simp only [] at h1; omega⟩
    · rename_i he hr
      have hne : s.rest ≠ [] := by simpa using hr
      have hlen : s.rest.length = b.length - s.off := by rw [h.rest_eq, List.length_drop]
      have hsz := decodeRune_size_le_length s.rest
      have hpos : 0 < (decodeRune s.rest).2 := by
        cases hs : s.rest with
        | nil => exact absurd hs hne
        | cons a t => exact decodeRune_size_pos a t
      have hoff := h.off_le
      have key : ∀ k, s.off < k → k ≤ b.length →
          posOf b k = if k - s.off ≤ (decodeRune s.rest).2 then (nextLine s, nextCol s)
            else posFrom (s.rest.drop (decodeRune s.rest).2) (k - s.off - (decodeRune s.rest).2)
              (if (decodeRune s.rest).1 = 10 then nextLine s + 1 else nextLine s)
              (if (decodeRune s.rest).1 = 10 then 1 else nextCol s + 1) := by
        intro k h1 h2
        rw [h.through k h1 h2, posFrom, dif_neg hne]
      refine ⟨?_, ?_, ?_, ?_, ?_⟩
      · simp only []; omega
      · simp only []
        rw [h.rest_eq, List.drop_drop]
      · intro hh; cases hh
      · intro _
        show (nextLine s, nextCol s) = posOf b (s.off + (decodeRune s.rest).2)
        have hle : s.off + (decodeRune s.rest).2 - s.off ≤ (decodeRune s.rest).2 := by omega
        rw [key (s.off + (decodeRune s.rest).2) (by omega) (by omega), if_pos hle]
      · intro k h1 h2
        have h1' : s.off + (decodeRune s.rest).2 < k := h1
        have hgt : ¬ (k - s.off ≤ (decodeRune s.rest).2) := by omega
        rw [key k (by omega) h2, if_neg hgt]
        have hk : k - s.off - (decodeRune s.rest).2 = k - (s.off + (decodeRune s.rest).2) := by omega
        rw [hk]
        rfl

theorem PosInv.steps {b : Bytes} {s s' : LState} (h : PosInv b s) (hs : Steps s s') : PosInv b s' := by
  induction hs with
  | refl => exact h
  | step _ ih => exact ih h.readChar

theorem PosInv.new (b : Bytes) : PosInv b (new b) := (PosInv.init b).readChar

/-- a live state has consumed at least one rune. -/
def Started (s : LState) : Prop := s.eof = false → 1 ≤ s.off

theorem started_readChar (s : LState) : Started (readChar s) := by
  unfold Started DC.Lexer.readChar
  split
  · rename_i he; intro h; simp only [] at h; rw [he] at h; cases h
  · split
    · intro h; cases h
    · rename_i he hr
      intro _
      have hpos : 0 < (decodeRune s.rest).2 := by
        cases hs : s.rest with
        | nil => simp [hs] at hr
        | cons a t => exact decodeRune_size_pos a t
      simp only []
      omega

theorem Started.steps {s s' : LState} (h : Started s) (hs : Steps s s') : Started s' := by
  induction hs with
  | refl => exact h
  | step _ ih => exact ih (started_readChar _)

theorem started_new (b : Bytes) : Started (new b) := started_readChar _

/-- at EOF everything has been consumed. -/
theorem PosInv.off_eq_of_eof {b : Bytes} {s : LState} (h : PosInv b s) (he : s.eof = true) : s.off = b.length :=
  h.off_eq_of_rest_nil (h.eof_rest he)

/-- a non-empty input: every invariant state has consumed at least one byte, once started. -/
theorem PosInv.one_le_off {b : Bytes} {s : LState} (h : PosInv b s) (hs : Started s) (hb : b ≠ []) : 1 ≤ s.off := by
  cases he : s.eof with
  | false => exact hs he
  | true =>
    rw [h.off_eq_of_eof he]
    cases b with
    | nil => exact absurd rfl hb
    | cons a t => simp

/-! ## token positions along a trace -/

/-- position facts of one non-EOF token. -/
theorem nextToken_pos {b : Bytes} {s : LState} (hi : PosInv b s) (hst : Started s)
    (hk : (nextToken s).1.kind ≠ tEOF) :
    1 ≤ (nextToken s).1.off ∧ (nextToken s).1.off ≤ b.length ∧
      ((nextToken s).1.line, (nextToken s).1.col) = posOf b (nextToken s).1.off := by
  cases nextToken_spec s with
  | inl h1 => rw [h1.2] at hk; exact absurd rfl hk
  | inr h1 =>
    obtain ⟨⟨he, _⟩, _, A, hA, hp, _, _⟩ := h1
    have hw : Steps s (skipWhitespace s) := skipWhitespace_steps (Steps.refl _)
    have hiA : PosInv b A := hi.steps (hw.trans hA)
    have h1 : 1 ≤ (skipWhitespace s).off := hst.steps hw he
    have h2 : (skipWhitespace s).off ≤ A.off := hA.off_le
    simp only [tpos, spos, Prod.mk.injEq] at hp
    obtain ⟨ho, hl, hc⟩ := hp
    rw [ho, hl, hc]
    exact ⟨by omega, hiA.off_le, hiA.pos_eq (by omega)⟩

theorem Trace.pos_spec {b : Bytes} {s : LState} {l : List Tok} (h : Trace s l) (hi : PosInv b s)
    (hst : Started s) :
    ∀ t ∈ l.dropLast, 1 ≤ t.off ∧ t.off ≤ b.length ∧ (t.line, t.col) = posOf b t.off := by
  induction h with
  | eof hk => intro t hm; simp at hm
  | @cons s l hk ht ih =>
    obtain ⟨t', l', rfl⟩ := List.exists_cons_of_ne_nil ht.ne_nil
    intro t hm
    rw [List.dropLast_cons_cons] at hm
    cases List.mem_cons.1 hm with
    | inl h => rw [h]; exact nextToken_pos hi hst hk
    | inr h => exact ih (hi.steps (nextToken_steps s)) (hst.steps (nextToken_steps s)) t h

/-- offsets of one non-EOF token against the virtual offset before and after. -/
theorem nextToken_voff {s : LState} (hk : (nextToken s).1.kind ≠ tEOF) :
    voff s ≤ (nextToken s).1.off ∧ (nextToken s).1.off < voff (nextToken s).2 := by
  cases nextToken_spec s with
  | inl h1 => rw [h1.2] at hk; exact absurd rfl hk
  | inr h1 =>
    obtain ⟨⟨he, _⟩, _, A, hA, hp, hA2, hd, _⟩ := h1
    have hw : Steps s (skipWhitespace s) := skipWhitespace_steps (Steps.refl _)
    simp only [tpos, spos, Prod.mk.injEq] at hp
    rw [hp.1]
    constructor
    · have h1 := hw.voff_le
      have h2 : voff (skipWhitespace s) = (skipWhitespace s).off := by simp [voff, he]
      have h3 := hA.off_le
      omega
    · cases hAe : A.eof with
      | true =>
        have h1 := hA2.voff_le
        have h2 : voff A = A.off + 1 := by simp [voff, hAe]
        omega
      | false =>
        cases hd with
        | inl h => rw [hAe] at h; cases h
        | inr h =>
          have h1 := h.voff_lt hAe
          have h2 : voff A = A.off := by simp [voff, hAe]
          omega

/-- the EOF token repeats the position of the state in which it was produced. -/
theorem nextToken_eof_voff {s : LState} (hk : (nextToken s).1.kind = tEOF) :
    voff s ≤ (nextToken s).1.off + 1 := by
  rw [nextToken_eof_state hk]
  have hw : Steps s (skipWhitespace s) := skipWhitespace_steps (Steps.refl _)
  have h1 := hw.voff_le
  have h2 : voff (skipWhitespace s) ≤ (skipWhitespace s).off + 1 := by
    unfold voff; split <;> omega
  show voff s ≤ (skipWhitespace s).off + 1
  omega

theorem Trace.increasing {s : LState} {l : List Tok} (h : Trace s l) :
    (∀ t ∈ l.dropLast, voff s ≤ t.off) ∧ List.Pairwise (fun a c => a.off < c.off) l.dropLast ∧
    (∀ e, l.getLast? = some e → voff s ≤ e.off + 1 ∧ ∀ t ∈ l.dropLast, t.off ≤ e.off) := by
  induction h with
  | eof hk =>
    refine ⟨by intro t hm; simp at hm, by simp, ?_⟩
    intro e he
    simp only [List.getLast?_singleton, Option.some.injEq] at he
    subst he
    exact ⟨nextToken_eof_voff hk, by intro t hm; simp at hm⟩
  | @cons s l hk ht ih =>
    obtain ⟨t', l', rfl⟩ := List.exists_cons_of_ne_nil ht.ne_nil
    obtain ⟨h1, h2⟩ := nextToken_voff hk
    obtain ⟨ih1, ih2, ih3⟩ := ih
    rw [List.dropLast_cons_cons]
    refine ⟨?_, ?_, ?_⟩
    · intro t hm
      cases List.mem_cons.1 hm with
      | inl h => rw [h]; exact h1
      | inr h => have := ih1 t h; omega
    · rw [List.pairwise_cons]
      exact ⟨fun t hm => by have := ih1 t hm; omega, ih2⟩
    · intro e he
      rw [List.getLast?_cons_cons] at he
      obtain ⟨h3, h4⟩ := ih3 e he
      refine ⟨by omega, ?_⟩
      intro t hm
      cases List.mem_cons.1 hm with
      | inl h => rw [h]; omega
      | inr h => exact h4 t h

/-- the EOF token of a trace: position of the last state. -/
theorem Trace.eof_pos {b : Bytes} {s : LState} {l : List Tok} (h : Trace s l) (hi : PosInv b s)
    (hst : Started s) (hb : b ≠ []) :
    ∀ e, l.getLast? = some e → 1 ≤ e.off ∧ e.off ≤ b.length ∧ (e.line, e.col) = posOf b e.off := by
  induction h with
  | @eof s hk =>
    intro e he
    simp only [List.getLast?_singleton, Option.some.injEq] at he
    subst he
    rw [nextToken_eof_state hk]
    have hw : Steps s (skipWhitespace s) := skipWhitespace_steps (Steps.refl _)
    have hiw := hi.steps hw
    have h1 := hiw.one_le_off (hst.steps hw) hb
    exact ⟨h1, hiw.off_le, hiw.pos_eq h1⟩
  | @cons s l hk ht ih =>
    obtain ⟨t', l', rfl⟩ := List.exists_cons_of_ne_nil ht.ne_nil
    intro e he
    rw [List.getLast?_cons_cons] at he
    exact ih (hi.steps (nextToken_steps s)) (hst.steps (nextToken_steps s)) e he

end DC.Lexer
