import DC.Model.Types

/-! Token-kind facts and the escaping algebra used by the C18 proofs. -/
namespace DC.Types
open DC.Gen.Tokens

/-! ## token kinds -/

theorem lookup_mem {α β : Type} [BEq α] (l : List (α × β)) (a : α) (b : β) (h : l.lookup a = some b) : ∃ p ∈ l, p.2 = b := by
  induction l with
  | nil => simp [List.lookup] at h
  | cons x xs ih =>
    obtain ⟨k, v⟩ := x
    simp only [List.lookup] at h
    split at h
    · exact ⟨(k, v), by simp, by simpa using h⟩
    · obtain ⟨p, hp, hp2⟩ := ih h
      exact ⟨p, by simp [hp], hp2⟩

set_option maxRecDepth 100000 in
theorem keywords_all_keyword : keywordsB.all (fun p => isKeyword p.2) = true := by decide

theorem wordKind_cases (w : Bytes) : wordKind w = tIDENT ∨ isKeyword (wordKind w) = true := by
  unfold wordKind
  split
  · rename_i k hk
    obtain ⟨p, hp, hp2⟩ := lookup_mem _ _ _ hk
    right
    have := List.all_eq_true.mp keywords_all_keyword p hp
    simpa [hp2] using this
  · left; rfl

@[simp] theorem isWord_wordTok (w : Bytes) : isWord (wordTok w) = true := by
  rcases wordKind_cases w with h | h <;> simp [isWord, wordTok, h]

set_option maxRecDepth 100000 in
theorem not_keyword_fixed :
    isKeyword tEQ = false ∧ isKeyword tLPAREN = false ∧ isKeyword tRPAREN = false ∧ isKeyword tCOMMA = false ∧
    isKeyword tEOF = false ∧ isKeyword tNUMBER = false ∧ isKeyword tSTRING = false ∧ isKeyword tMINUS = false ∧
    isKeyword tIDENT = false ∧ isKeyword tCOLONCOLON = false ∧ isKeyword tDOT = false := by decide

/-- a word is never one of the fixed non-word kinds -/
theorem wordKind_ne (w : Bytes) (k : Nat) (hk : isKeyword k = false) (hi : k ≠ tIDENT) : wordKind w ≠ k := by
  rcases wordKind_cases w with h | h
  · rw [h]; exact fun e => hi e.symm
  · intro e; rw [e, hk] at h; cases h

/-- kinds of tokens that are not words -/
theorem isWord_of_kind (t : Tok) (hk : isKeyword t.kind = false) (hi : t.kind ≠ tIDENT) : isWord t = false := by
  simp [isWord, hk, hi]

/-! ## escaping -/

theorem esc_append (a b : Bytes) : esc (a ++ b) = esc a ++ esc b := by simp [esc]
theorem esc_cons (a : UInt8) (b : Bytes) : esc (a :: b) = escByte a ++ esc b := by simp [esc]
@[simp] theorem esc_nil : esc [] = [] := rfl

theorem escByte_plain (b : UInt8) (h : plainByte b = true) : escByte b = [b] := by
  simp only [plainByte, Bool.not_eq_true', Bool.or_eq_false_iff] at h
  obtain ⟨⟨⟨⟨⟨⟨⟨h1, h2⟩, h3⟩, h4⟩, h5⟩, h6⟩, h7⟩, h8⟩ := h
  simp [escByte, h1, h2, h3, h4, h5, h6, h7, h8]

theorem esc_plain (s : Bytes) (h : plainStr s = true) : esc s = s := by
  induction s with
  | nil => rfl
  | cons b bs ih =>
    simp only [plainStr, List.all_cons, Bool.and_eq_true] at h
    rw [esc_cons, escByte_plain b h.1, ih (by simpa [plainStr] using h.2)]
    rfl

theorem plainStr_append (a b : Bytes) : plainStr (a ++ b) = (plainStr a && plainStr b) := by simp [plainStr]

theorem isIdentByte_plain (b : UInt8) (h : isIdentByte b = true) : plainByte b = true := by
  simp only [plainByte, Bool.not_eq_true', Bool.or_eq_false_iff, beq_eq_false_iff_ne, ne_eq]
  refine ⟨⟨⟨⟨⟨⟨⟨?_, ?_⟩, ?_⟩, ?_⟩, ?_⟩, ?_⟩, ?_⟩, ?_⟩ <;> (intro hb; subst hb; exact absurd h (by decide))

theorem identLike_plain (w : Bytes) (h : identLike w = true) : plainStr w = true := by
  simp only [identLike, Bool.and_eq_true, List.all_eq_true] at h
  simp only [plainStr, List.all_eq_true]
  intro b hb
  exact isIdentByte_plain b (h.2 b hb)

/-- two levels of escaping -/
def esc2 (s : Bytes) : Bytes := esc (esc s)
theorem esc2_append (a b : Bytes) : esc2 (a ++ b) = esc2 a ++ esc2 b := by simp [esc2, esc_append]
theorem esc2_cons_plain (a : UInt8) (b : Bytes) (h : plainByte a = true) : esc2 (a :: b) = a :: esc2 b := by
  simp [esc2, esc_cons, escByte_plain a h]
theorem esc2_plain (s : Bytes) (h : plainStr s = true) : esc2 s = s := by simp [esc2, esc_plain s h]
@[simp] theorem esc2_nil : esc2 [] = [] := rfl

theorem q3_eq : q3 = esc2 [39] := by decide

/-- `escapeStringLiteral` is two levels of `esc`. -/
theorem escLitByte_eq (b : UInt8) : escLitByte b = esc (escByte b) := by
  by_cases h1 : b = 92; · subst h1; decide
  by_cases h2 : b = 39; · subst h2; decide
  by_cases h3 : b = 10; · subst h3; decide
  by_cases h4 : b = 9; · subst h4; decide
  by_cases h5 : b = 13; · subst h5; decide
  by_cases h6 : b = 0; · subst h6; decide
  by_cases h7 : b = 8; · subst h7; decide
  by_cases h8 : b = 12; · subst h8; decide
  simp [escLitByte, escByte, esc, h1, h2, h3, h4, h5, h6, h7, h8]

theorem escapeStringLiteral_eq (s : Bytes) : escapeStringLiteral s = esc2 s := by
  induction s with
  | nil => rfl
  | cons b bs ih =>
    simp only [escapeStringLiteral, List.flatMap_cons] at ih ⊢
    rw [ih, escLitByte_eq]
    simp [esc2, esc_cons, esc_append]

/-- `escapeStringForTypeParam` is three levels of `esc`. -/
theorem escTypeParamByte_eq (b : UInt8) : escTypeParamByte b = esc2 (escByte b) := by
  by_cases h1 : b = 92; · subst h1; decide
  by_cases h2 : b = 39; · subst h2; decide
  by_cases h3 : b = 10; · subst h3; decide
  by_cases h4 : b = 9; · subst h4; decide
  by_cases h5 : b = 13; · subst h5; decide
  by_cases h6 : b = 0; · subst h6; decide
  by_cases h7 : b = 8; · subst h7; decide
  by_cases h8 : b = 12; · subst h8; decide
  simp [escTypeParamByte, escByte, esc2, esc, h1, h2, h3, h4, h5, h6, h7, h8]

theorem escapeStringForTypeParam_eq (s : Bytes) : escapeStringForTypeParam s = esc2 (esc s) := by
  induction s with
  | nil => rfl
  | cons b bs ih =>
    simp only [escapeStringForTypeParam, List.flatMap_cons] at ih ⊢
    rw [ih, escTypeParamByte_eq b, esc_cons, esc2_append]

end DC.Types
