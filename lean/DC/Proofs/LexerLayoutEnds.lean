import DC.Proofs.LexerLayoutKeyword

/-!
# A white-space rune ends the token before it (C05 `token_ends_at_ws_*`, for the simple scanners)

For identifiers (any Unicode identifier), ASCII decimal integers and the operator / punctuation tokens: if the
token's text is followed by a white-space rune, `NextToken` answers exactly that token and stands on the white-space
rune — it has looked at nothing after it (`rest` is universally quantified), and it does not matter which
white-space rune it is. The facts about white-space runes come from an enumeration of the regenerated Unicode
tables (`wsRunes`, `wsRunes_inert`), the disjointness of letters and digits from `letter_digit_ranges`.
-/
namespace DC.Lexer
open DC.Utf8 DC.Gen.Tokens DC.Gen.Unicode

theorem inRanges_iff (rs : List (Nat × Nat)) (r : Nat) :
    inRanges rs r = true ↔ ∃ p ∈ rs, p.1 ≤ r ∧ r ≤ p.2 := by
  unfold inRanges
  simp [List.any_eq_true]

/-- every rune that `skipWhitespace` skips (enumerated from the regenerated tables). -/
def wsRunes : List Nat :=
  (List.range 128).filter isWs ++
    isSpaceRanges.flatMap (fun p => (List.range (p.2 - p.1 + 1)).map (· + p.1)) ++
    [0xFEFF, 0x180E, 0x200B, 0x200C, 0x200D, 0x2060]

theorem isWs_mem {r : Nat} (h : isWs r = true) : r ∈ wsRunes := by
  unfold wsRunes
  unfold isWs at h
  rw [Bool.or_eq_true] at h
  rcases h with h | h
  · by_cases hr : r < 128
    · apply List.mem_append_left; apply List.mem_append_left
      rw [List.mem_filter, List.mem_range]
      exact ⟨hr, by unfold isWs; rw [h]; rfl⟩
    · apply List.mem_append_left; apply List.mem_append_right
      unfold isSpace at h
      rw [if_neg hr, inRanges_iff] at h
      obtain ⟨p, hp, h1, h2⟩ := h
      rw [List.mem_flatMap]
      refine ⟨p, hp, ?_⟩
      rw [List.mem_map]
      exact ⟨r - p.1, by rw [List.mem_range]; omega, by omega⟩
  · apply List.mem_append_right
    unfold isClickHouseWhitespace at h
    simp only [Bool.or_eq_true, decide_eq_true_eq] at h
    simp only [List.mem_cons, List.mem_nil_iff, or_false]
    omega

/-- what the scanners need to know about a white-space rune: it continues no identifier and no number, and if it
is ASCII it is one of `\t \n \v \f \r` and blank. -/
def wsInert (r : Nat) : Bool :=
  !isIdentChar r && !isLetter r && !isDigit r && !isIdentStart r &&
    (r == 9 || r == 10 || r == 11 || r == 12 || r == 13 || r == 32 || decide (128 ≤ r))

theorem wsRunes_inert : wsRunes.all wsInert = true := by decide +kernel

theorem ws_inert {r : Nat} (h : isWs r = true) :
    isIdentChar r = false ∧ isLetter r = false ∧ isDigit r = false ∧ isIdentStart r = false ∧
      (r = 9 ∨ r = 10 ∨ r = 11 ∨ r = 12 ∨ r = 13 ∨ r = 32 ∨ 128 ≤ r) := by
  have := List.all_eq_true.1 wsRunes_inert r (isWs_mem h)
  unfold wsInert at this
  simp only [Bool.and_eq_true, Bool.not_eq_true', Bool.or_eq_true, beq_iff_eq, decide_eq_true_eq] at this
  obtain ⟨⟨⟨⟨h1, h2⟩, h3⟩, h4⟩, h5⟩ := this
  exact ⟨h1, h2, h3, h4, by omega⟩


/-! ## identifiers -/

theorem letter_digit_ascii : ∀ n, n < 128 → isLetter n = true → isDigit n = false := by decide

theorem letter_digit_ranges :
    isLetterRanges.all (fun p => isDigitRanges.all (fun q => decide (p.2 < q.1) || decide (q.2 < p.1))) = true := by
  decide +kernel

/-- `unicode.IsLetter` and `unicode.IsDigit` are disjoint (from the regenerated tables). -/
theorem letter_not_digit {r : Nat} (h : isLetter r = true) : isDigit r = false := by
  by_cases hr : r < 128
  · exact letter_digit_ascii r hr h
  · unfold isLetter at h
    unfold isDigit
    rw [if_neg hr] at h ⊢
    rw [inRanges_iff] at h
    obtain ⟨p, hp, h1, h2⟩ := h
    cases hd : inRanges isDigitRanges r with
    | false => rfl
    | true =>
      rw [inRanges_iff] at hd
      obtain ⟨q, hq, h3, h4⟩ := hd
      have := List.all_eq_true.1 (List.all_eq_true.1 letter_digit_ranges p hp) q hq
      simp only [Bool.or_eq_true, decide_eq_true_eq] at this
      omega

theorem ne_of_identStart {r c : Nat} (h : isIdentStart r = true) (hc : isIdentStart c = false) : r ≠ c := by
  intro e; rw [e, hc] at h; cases h

theorem identStart_not_digit {r : Nat} (h : isIdentStart r = true) : isDigit r = false := by
  unfold isIdentStart at h
  simp only [Bool.or_eq_true, decide_eq_true_eq] at h
  rcases h with h | h
  · subst h; decide
  · exact letter_not_digit h

theorem identStart_not_ws {r : Nat} (h : isIdentStart r = true) : isWs r = false := by
  cases hw : isWs r with
  | false => rfl
  | true => rw [(ws_inert hw).2.2.2.1] at h; cases h

/-- `NextToken` on an identifier-start rune goes to `readIdentifier`. -/
theorem nextTokenE_identStart' {s : LState} (he : s.eof = false) (h : isIdentStart s.ch = true) :
    nextTokenE s = readIdentifier s := by
  have n : ∀ c, isIdentStart c = false → s.ch ≠ c := fun c hc => ne_of_identStart h hc
  have hop : readOperator s = none := by
    unfold readOperator
    simp only []
    rw [if_neg (n 45 (by decide)), if_neg (n 61 (by decide)), if_neg (n 33 (by decide)), if_neg (n 60 (by decide)),
      if_neg (n 62 (by decide)), if_neg (n 124 (by decide)), if_neg (n 58 (by decide))]
  have hsk : singleCharKind s.ch = none := by
    unfold singleCharKind
    rw [if_neg (n 43 (by decide)), if_neg (n 42 (by decide)), if_neg (n 47 (by decide)), if_neg (n 37 (by decide)),
      if_neg (n 40 (by decide)), if_neg (n 41 (by decide)), if_neg (n 91 (by decide)), if_neg (n 93 (by decide)),
      if_neg (n 125 (by decide)), if_neg (n 44 (by decide)), if_neg (n 59 (by decide)), if_neg (n 63 (by decide)),
      if_neg (n 94 (by decide))]
  rw [nextTokenE_live (identStart_not_ws h) he (n 0 (by decide)),
    if_neg (fun hh => n 45 (by decide) hh.1), if_neg (n 35 (by decide)),
    if_neg (fun hh => n 47 (by decide) hh.1), if_neg (n 0x2212 (by decide +kernel))]
  unfold nextTokenSwitch
  rw [hsk]
  simp only [hop]
  rw [if_neg (n 123 (by decide)), if_neg (n 46 (by decide)), if_neg (n 36 (by decide)), if_neg (n 39 (by decide)),
    if_neg (fun hh => hh.elim (n 0x2018 (by decide +kernel)) (n 0x2019 (by decide +kernel))), if_neg (n 34 (by decide)),
    if_neg (fun hh => hh.elim (n 0x201C (by decide +kernel)) (n 0x201D (by decide +kernel))), if_neg (n 96 (by decide)),
    if_neg (n 64 (by decide)), if_neg (by rw [identStart_not_digit h]; decide), if_pos h]

/-- an identifier (any runes satisfying `isIdentChar`, the first one `isIdentStart`) followed by a white-space rune:
the token is that identifier — kind by `token.Lookup(strings.ToUpper(·))`, value as written (re-encoded) — and the
lexer stands on the white-space rune: nothing after that rune was looked at (`rest` is arbitrary), and which
white-space rune it is does not matter. -/
theorem ident_ends_at_ws {body : Bytes} {r0 : Nat} {rs : List Nat} (hb : Spells body (r0 :: rs))
    (h0 : isIdentStart r0 = true) (hall : ∀ r ∈ r0 :: rs, isIdentChar r = true)
    {w : Bytes} {r : Nat} (hw : Dec w r) (hr : isWs r = true) (rest : Bytes)
    {s : LState} (hs : Ent s (body ++ (w ++ rest))) :
    (nextToken s).1.kvq = (lookupIdent (enc (r0 :: rs)), enc (r0 :: rs), false) ∧ Ent (nextToken s).2 (w ++ rest) := by
  obtain ⟨p, bs, rfl, hd, hb1⟩ := hb.cons_inv
  have hs' : Ent s (p ++ (bs ++ (w ++ rest))) := by rw [← List.append_assoc]; exact hs
  obtain ⟨hch, he, _⟩ := hs'.dec hd
  obtain ⟨ha, hst⟩ := scanWhile_run identCharCond identCharCond_ok isIdentChar identCharCond_live
    (Spells.cons hd hb1) hall (by rw [firstRune_dec hw]; exact (ws_inert hr).1) [] hs
  have hpk : ¬ peekChar s = 39 := by
    rw [hs'.peek hd 39 (by decide)]
    cases hb1 with
    | nil =>
      rw [List.nil_append, firstRune_dec hw]
      have := (ws_inert hr).2.2.2.2; omega
    | @cons p1 r1 bs1 rs1 hd1 _ =>
      rw [List.append_assoc, firstRune_dec hd1]
      intro e
      have := hall r1 (List.mem_cons_of_mem _ (List.mem_cons_self ..))
      rw [e] at this; revert this; decide
  have : nextTokenE s = .ok (tokAt s (lookupIdent (scanWhile identCharCond identCharCond_ok s []).2.reverse)
      (scanWhile identCharCond identCharCond_ok s []).2.reverse, (scanWhile identCharCond identCharCond_ok s []).1) := by
    rw [nextTokenE_identStart' he (by rw [hch]; exact h0)]
    unfold readIdentifier
    rw [if_neg (fun h => hpk h.2), if_neg (fun h => hpk h.2)]
  rw [nextToken_of_E this]
  simp only [kvq_tokAt, ha, List.append_nil, List.reverse_reverse]
  exact ⟨trivial, hst⟩


/-! ## decimal integers -/

theorem digit_facts : ∀ n, n < 128 → (48 ≤ n ∧ n ≤ 57) →
    isWs n = false ∧ singleCharKind n = none ∧ isDigit n = true := by
  decide

theorem nextTokenE_digit {s : LState} (he : s.eof = false) (h : 48 ≤ s.ch ∧ s.ch ≤ 57) :
    nextTokenE s = .ok (readNumberOrIdent s) := by
  obtain ⟨h1, h2, h3⟩ := digit_facts s.ch (by omega) h
  have hop : readOperator s = none := by
    unfold readOperator
    simp only []
    iterate 7 rw [if_neg (by omega)]
  rw [nextTokenE_live h1 he (by omega), if_neg (by omega), if_neg (by omega), if_neg (by omega), if_neg (by omega)]
  unfold nextTokenSwitch
  rw [h2]
  simp only [hop]
  rw [if_neg (by omega), if_neg (by omega), if_neg (by omega), if_neg (by omega), if_neg (by omega),
    if_neg (by omega), if_neg (by omega), if_neg (by omega), if_neg (by omega), if_pos h3]

theorem digitCond_live (s : LState) (_ : s.eof = false) : digitCond s = isDigit s.ch := rfl

theorem usDigitGroups_stop {s : LState} (acc : Bytes) (h : s.ch ≠ 95) : usDigitGroups s acc = (s, acc) := by
  rw [usDigitGroups.eq_1, dif_neg (by simp [h])]

/-- a run of ASCII digits followed by a white-space rune: one `NUMBER` token with exactly those digits, and the
lexer stands on the white-space rune (`rest` arbitrary). -/
theorem int_ends_at_ws {ds : Bytes} (hne : ds ≠ []) (hds : ∀ b ∈ ds, 48 ≤ b.toNat ∧ b.toNat ≤ 57)
    {w : Bytes} {r : Nat} (hw : Dec w r) (hr : isWs r = true) (rest : Bytes)
    {s : LState} (hs : Ent s (ds ++ (w ++ rest))) :
    (nextToken s).1.kvq = (tNUMBER, ds, false) ∧ Ent (nextToken s).2 (w ++ rest) := by
  obtain ⟨hi1, hi2, hi3, hi4, hi5⟩ := ws_inert hr
  have hascii : ∀ b ∈ ds, b.toNat < 128 := fun b hb => by have := hds b hb; omega
  obtain ⟨ha, hst⟩ := scanWhile_run digitCond digitCond_ok isDigit digitCond_live (spells_ascii hascii)
    (by
      intro x hx
      obtain ⟨b, hb, rfl⟩ := List.mem_map.1 hx
      exact (digit_facts _ (hascii b hb) (hds b hb)).2.2)
    (by rw [firstRune_dec hw]; exact hi3) [] hs
  rw [List.append_nil, enc_ascii hascii] at ha
  have hch : (scanWhile digitCond digitCond_ok s []).1.ch = r := by rw [hst.ch, firstRune_dec hw]
  cases ds with
  | nil => exact absurd rfl hne
  | cons d0 ds' =>
    have h0 := hds d0 (List.mem_cons_self ..)
    have hs' : Ent s ([d0] ++ (ds' ++ (w ++ rest))) := hs
    obtain ⟨hc0, he, _⟩ := hs'.dec (dec_ascii (by omega))
    rw [nextToken_of_E (nextTokenE_digit he (by rw [hc0]; exact h0))]
    unfold readNumberOrIdent
    simp only []
    rw [if_neg (by rw [hch]; omega), if_neg (by rw [hch, hi2]; simp)]
    unfold numberTail
    simp only []
    rw [usDigitGroups_stop _ (by rw [hch]; omega)]
    have e1 : fracPart (scanWhile digitCond digitCond_ok s []) = scanWhile digitCond digitCond_ok s [] := by
      unfold fracPart; rw [if_neg (by rw [hch]; omega)]
    have e2 : expPart (scanWhile digitCond digitCond_ok s []) = scanWhile digitCond digitCond_ok s [] := by
      unfold expPart; rw [if_neg (by rw [hch]; omega)]
    have e3 : baseTail (scanWhile digitCond digitCond_ok s []) = scanWhile digitCond digitCond_ok s [] := by
      unfold baseTail
      simp only []
      rw [if_neg (by rw [hch]; omega), if_neg (by rw [hch]; omega)]
    have e4 : octTail s.ch (scanWhile digitCond digitCond_ok s []) = scanWhile digitCond digitCond_ok s [] := by
      unfold octTail
      split
      · rw [if_neg (by rw [hch]; omega)]
      · rfl
    rw [e1, e2, e3, e4]
    simp only [kvq_tokAt, ha, List.reverse_reverse]
    exact ⟨trivial, hst⟩


/-! ## operators and punctuation -/

theorem decodeRune_single (b : UInt8) (h : 128 ≤ b.toNat) : decodeRune [b] = (runeError, 1) := by
  unfold decodeRune
  simp only []
  repeat' split
  all_goals first | rfl | omega

/-- the facts about a state that stands on ASCII `c0` with a white-space rune next. -/
theorem ws_next_facts {s : LState} {c0 : UInt8} (h0 : c0.toNat < 128) {w : Bytes} {r : Nat} (hw : Dec w r)
    (hr : isWs r = true) (rest : Bytes) (hs : Ent s (c0 :: (w ++ rest))) :
    s.ch = c0.toNat ∧ s.eof = false ∧ (readChar s).ch = r ∧ Ent (readChar s) (w ++ rest) ∧
      (∀ c, c < 128 → c ≠ r → peekChar s ≠ c) ∧ isDigit (peekChar s) = false := by
  have hs' : Ent s ([c0] ++ (w ++ rest)) := hs
  obtain ⟨hch, he, hrest⟩ := hs'.dec (dec_ascii h0)
  have h1 := hs'.readChar (dec_ascii h0)
  refine ⟨hch, he, (h1.dec hw).1, h1, ?_, ?_⟩
  · intro c hc hne
    intro e
    rw [hs'.peek (dec_ascii h0) c hc, firstRune_dec hw] at e
    exact hne e.symm
  · unfold peekChar
    rw [he, hrest]
    cases w with
    | nil => exact absurd rfl hw.1
    | cons b w' =>
      simp only [Bool.false_eq_true, if_false, List.cons_append]
      by_cases hb : b.toNat < 128
      · have := hw.2 rest
        rw [List.cons_append, decodeRune_ascii b _ hb] at this
        rw [decodeRune_ascii b [] hb]
        simp only [Prod.mk.injEq] at this
        rw [this.1]; exact (ws_inert hr).2.2.1
      · rw [decodeRune_single b (by omega)]
        decide +kernel


/-- the operator and punctuation tokens: spelling and kind (lexer.go:222-339). `!` and `|` alone are `ILLEGAL`. -/
def opTable : List (Bytes × Nat) := [
  ([43], tPLUS), ([42], tASTERISK), ([47], tSLASH), ([37], tPERCENT), ([40], tLPAREN), ([41], tRPAREN),
  ([91], tLBRACKET), ([93], tRBRACKET), ([125], tRBRACE), ([44], tCOMMA), ([59], tSEMICOLON), ([63], tQUESTION),
  ([94], tCARET), ([45], tMINUS), ([61], tEQ), ([33], tILLEGAL), ([60], tLT), ([62], tGT), ([124], tILLEGAL),
  ([58], tCOLON), ([46], tDOT),
  ([45, 62], tARROW), ([61, 61], tEQ), ([33, 61], tNEQ), ([60, 61], tLTE), ([60, 62], tNEQ), ([62, 61], tGTE),
  ([124, 124], tCONCAT), ([58, 58], tCOLONCOLON),
  ([60, 61, 62], tNULL_SAFE_EQ)]

/-- one-byte entries. -/
theorem op1_ends_at_ws (c0 : UInt8) (k : Nat)
    (hmem : ([c0], k) ∈ opTable)
    {w : Bytes} {r : Nat} (hw : Dec w r) (hr : isWs r = true) (rest : Bytes)
    {s : LState} (hs : Ent s ([c0] ++ (w ++ rest))) :
    (nextToken s).1.kvq = (k, [c0], false) ∧ Ent (nextToken s).2 (w ++ rest) := by
  have hi := (ws_inert hr).2.2.2.2
  have h0 : c0.toNat < 128 := by
    simp only [opTable, List.mem_cons, Prod.mk.injEq, List.cons.injEq, List.mem_nil_iff, and_true, or_false] at hmem
    rcases hmem with h | h | h | h | h | h | h | h | h | h | h | h | h | h | h | h | h | h | h | h | h | h | h | h | h | h | h | h | h | h
    all_goals first
      | (rw [h.1]; decide)
      | (exact absurd h.1 (by simp))
      | (exact absurd h.1.2 (by simp))
  obtain ⟨hch, he, hc1, h1, hpk, hpd⟩ := ws_next_facts h0 hw hr rest hs
  have hE : nextTokenE s = .ok (tokAt s k [c0], readChar s) := by
    simp only [opTable, List.mem_cons, Prod.mk.injEq, List.cons.injEq, List.mem_nil_iff, and_true, or_false] at hmem
    rcases hmem with h | h | h | h | h | h | h | h | h | h | h | h | h | h | h | h | h | h | h | h | h | h | h | h | h | h | h | h | h | h
    all_goals first
      | (obtain ⟨rfl, rfl⟩ := h
         rw [nextTokenE_live (by rw [hch]; decide) he (by rw [hch]; decide)]
         simp [hch, hc1, hpd, nextTokenSwitch, singleCharKind, readOperator, readDot, encodeRune,
           hpk 45 (by decide) (by omega), hpk 62 (by decide) (by omega), hpk 61 (by decide) (by omega),
           hpk 124 (by decide) (by omega), hpk 58 (by decide) (by omega), hpk 42 (by decide) (by omega)]
         try (rw [if_neg (by omega)]))
      | (exact absurd h.1 (by simp))
      | (exact absurd h.1.2 (by simp))
  rw [nextToken_of_E hE]
  exact ⟨rfl, h1⟩


/-- two-byte entries. -/
theorem op2_ends_at_ws (c0 c1 : UInt8) (k : Nat) (hmem : ([c0, c1], k) ∈ opTable)
    {w : Bytes} {r : Nat} (hw : Dec w r) (hr : isWs r = true) (rest : Bytes)
    {s : LState} (hs : Ent s ([c0, c1] ++ (w ++ rest))) :
    (nextToken s).1.kvq = (k, [c0, c1], false) ∧ Ent (nextToken s).2 (w ++ rest) := by
  have hi := (ws_inert hr).2.2.2.2
  have h01 : c0.toNat < 128 ∧ c1.toNat < 128 := by
    simp only [opTable, List.mem_cons, Prod.mk.injEq, List.cons.injEq, List.mem_nil_iff, and_true, or_false] at hmem
    rcases hmem with h | h | h | h | h | h | h | h | h | h | h | h | h | h | h | h | h | h | h | h | h | h | h | h | h | h | h | h | h | h
    all_goals first
      | (rw [h.1.1, h.1.2]; decide)
      | (exact absurd h.1.2 (by simp))
      | (exact absurd h.1.2.2 (by simp))
  have hs' : Ent s ([c0] ++ (c1 :: (w ++ rest))) := hs
  obtain ⟨hch, he, _⟩ := hs'.dec (dec_ascii h01.1)
  have hpk : peekChar s = c1.toNat :=
    (hs'.peek (dec_ascii h01.1) c1.toNat h01.2).2 (firstRune_cons_ascii c1 _ h01.2)
  have hs1 : Ent (readChar s) (c1 :: (w ++ rest)) := hs'.readChar (dec_ascii h01.1)
  obtain ⟨hch1, he1, hc2, h2, hpk1, hpd1⟩ := ws_next_facts h01.2 hw hr rest hs1
  have hE : nextTokenE s = .ok (tokAt s k [c0, c1], readChar (readChar s)) := by
    simp only [opTable, List.mem_cons, Prod.mk.injEq, List.cons.injEq, List.mem_nil_iff, and_true, or_false] at hmem
    rcases hmem with h | h | h | h | h | h | h | h | h | h | h | h | h | h | h | h | h | h | h | h | h | h | h | h | h | h | h | h | h | h
    all_goals first
      | (obtain ⟨⟨rfl, rfl⟩, rfl⟩ := h
         rw [nextTokenE_live (by rw [hch]; decide) he (by rw [hch]; decide)]
         simp [hch, hch1, hc2, hpk, nextTokenSwitch, singleCharKind, readOperator]
         try (rw [if_neg (by omega)]))
      | (exact absurd h.1.2 (by simp))
      | (exact absurd h.1.2.2 (by simp))
  rw [nextToken_of_E hE]
  exact ⟨rfl, h2⟩

/-- `<=>`. -/
theorem op3_ends_at_ws {w : Bytes} {r : Nat} (hw : Dec w r) (hr : isWs r = true) (rest : Bytes)
    {s : LState} (hs : Ent s ([60, 61, 62] ++ (w ++ rest))) :
    (nextToken s).1.kvq = (tNULL_SAFE_EQ, [60, 61, 62], false) ∧ Ent (nextToken s).2 (w ++ rest) := by
  have d60 : Dec [60] 60 := dec_ascii (b := 60) (by decide)
  have d61 : Dec [61] 61 := dec_ascii (b := 61) (by decide)
  have hs' : Ent s ([60] ++ (61 :: 62 :: (w ++ rest))) := hs
  obtain ⟨hch, he, _⟩ := hs'.dec d60
  have hpk : peekChar s = 61 := (hs'.peek d60 61 (by decide)).2 (firstRune_cons_ascii 61 _ (by decide))
  have hs1 : Ent (readChar s) ([61] ++ (62 :: (w ++ rest))) := hs'.readChar d60
  have hs2 : Ent (readChar (readChar s)) (62 :: (w ++ rest)) := hs1.readChar d61
  obtain ⟨hch2, _, _, h3, _, _⟩ := ws_next_facts (c0 := 62) (by decide) hw hr rest hs2
  have hE : nextTokenE s = .ok (tokAt s tNULL_SAFE_EQ [60, 61, 62], readChar (readChar (readChar s))) := by
    rw [nextTokenE_live (by rw [hch]; decide) he (by rw [hch]; decide)]
    simp [hch, hch2, hpk, nextTokenSwitch, singleCharKind, readOperator]
  rw [nextToken_of_E hE]
  exact ⟨rfl, h3⟩

/-- every operator / punctuation token followed by a white-space rune: exactly that token, and the lexer stands on
the white-space rune. -/
theorem op_ends_at_ws (e : Bytes × Nat) (hmem : e ∈ opTable)
    {w : Bytes} {r : Nat} (hw : Dec w r) (hr : isWs r = true) (rest : Bytes)
    {s : LState} (hs : Ent s (e.1 ++ (w ++ rest))) :
    (nextToken s).1.kvq = (e.2, e.1, false) ∧ Ent (nextToken s).2 (w ++ rest) := by
  obtain ⟨op, k⟩ := e
  match op, hmem, hs with
  | [c0], hmem, hs => exact op1_ends_at_ws c0 k hmem hw hr rest hs
  | [c0, c1], hmem, hs => exact op2_ends_at_ws c0 c1 k hmem hw hr rest hs
  | [], hmem, _ => simp [opTable] at hmem
  | c0 :: c1 :: c2 :: t, hmem, hs =>
    have : c0 = 60 ∧ c1 = 61 ∧ c2 = 62 ∧ t = [] ∧ k = tNULL_SAFE_EQ := by
      simp only [opTable, List.mem_cons, Prod.mk.injEq, List.cons.injEq, List.mem_nil_iff, or_false] at hmem
      simp at hmem
      exact ⟨hmem.1.1, hmem.1.2.1, hmem.1.2.2.1, hmem.1.2.2.2, hmem.2⟩
    obtain ⟨rfl, rfl, rfl, rfl, rfl⟩ := this
    exact op3_ends_at_ws hw hr rest hs


/-! ## the simple-token fragment -/

/-- the tokens for which "a white-space rune ends the token" is proved: identifiers and keywords (any case, any
Unicode letters), ASCII decimal integers, operators and punctuation. Second component: the token's
`(kind, value, quoted)`. -/
inductive SimpleTok : Bytes → (Nat × Bytes × Bool) → Prop
  | ident {body : Bytes} {r0 : Nat} {rs : List Nat} : Spells body (r0 :: rs) → isIdentStart r0 = true →
      (∀ r ∈ r0 :: rs, isIdentChar r = true) → SimpleTok body (lookupIdent (enc (r0 :: rs)), enc (r0 :: rs), false)
  | int {ds : Bytes} : ds ≠ [] → (∀ b ∈ ds, 48 ≤ b.toNat ∧ b.toNat ≤ 57) → SimpleTok ds (tNUMBER, ds, false)
  | op {e : Bytes × Nat} : e ∈ opTable → SimpleTok e.1 (e.2, e.1, false)

theorem opTable_ne_eof : ∀ e ∈ opTable, e.2 ≠ tEOF := by decide

theorem SimpleTok.ne_eof {t : Bytes} {T : Nat × Bytes × Bool} (h : SimpleTok t T) : T.1 ≠ tEOF := by
  cases h with
  | ident => exact lookupIdent_ne_eof _
  | int => exact (by decide : tNUMBER ≠ tEOF)
  | op hm => exact opTable_ne_eof _ hm

/-- `token_ends_at_ws` for the three classes at once. -/
theorem SimpleTok.ends_at_ws {t : Bytes} {T : Nat × Bytes × Bool} (h : SimpleTok t T)
    {w : Bytes} {r : Nat} (hw : Dec w r) (hr : isWs r = true) (rest : Bytes)
    {s : LState} (hs : Ent s (t ++ (w ++ rest))) :
    (nextToken s).1.kvq = T ∧ Ent (nextToken s).2 (w ++ rest) := by
  cases h with
  | ident hb h0 hall => exact ident_ends_at_ws hb h0 hall hw hr rest hs
  | int hne hds => exact int_ends_at_ws hne hds hw hr rest hs
  | op hm => exact op_ends_at_ws _ hm hw hr rest hs

/-- a gap that begins with a white-space rune. -/
def WsGap (g : Bytes) : Prop := ∃ w r g', g = w ++ g' ∧ Dec w r ∧ isWs r = true ∧ Gap g'

theorem WsGap.gap {g : Bytes} (h : WsGap g) : Gap g := by
  obtain ⟨w, r, g', rfl, hw, hr, hg⟩ := h
  exact Gap.cons (GapItem.ws hw hr) hg

/-- what one token contributes to the pumped stream. -/
def pumpOne (T : Nat × Bytes × Bool) : List (Nat × Bytes × Bool) := if isTriviaKind T.1 then [] else [T]

theorem pumpedFrom_step {s : LState} {T : Nat × Bytes × Bool} (hk : (nextToken s).1.kvq = T) (hne : T.1 ≠ tEOF) :
    pumpedFrom s = pumpOne T ++ pumpedFrom (nextToken s).2 := by
  have hkind : (nextToken s).1.kind = T.1 := by rw [← hk]; rfl
  unfold pumpOne
  cases ht : isTriviaKind T.1 with
  | true =>
    rw [pumpedFrom_trivia (by rw [hkind]; exact ht)]
    simp
  | false =>
    rw [pumpedFrom_token (by rw [hkind]; exact ht) (by rw [hkind]; exact hne), hk]
    simp

/-- a simple token followed by a gap that begins with white space: the parser sees the token, then what it sees
from `rest`. -/
theorem simpleTok_then_gap {t : Bytes} {T : Nat × Bytes × Bool} (ht : SimpleTok t T) {g : Bytes} (hg : WsGap g)
    (rest : Bytes) {s x : LState} (hs : Ent s (t ++ (g ++ rest))) (hx : Ent x rest) :
    pumpedFrom s = pumpOne T ++ pumpedFrom x := by
  obtain ⟨w, r, g', rfl, hw, hr, hg'⟩ := hg
  rw [List.append_assoc] at hs
  obtain ⟨hk, he⟩ := ht.ends_at_ws hw hr (g' ++ rest) hs
  rw [pumpedFrom_step hk ht.ne_eof]
  have he' : Ent (nextToken s).2 ((w ++ g') ++ rest) := by rw [List.append_assoc]; exact he
  rw [gap_trivia (Gap.cons (GapItem.ws hw hr) hg') rest he' hx]

/-- two texts with the same simple tokens and different layout: `a` and `b` are built from a common tail by
prefixing, in lock step, the same simple token followed by (possibly different) gaps that begin with a white-space
rune, or (possibly different) arbitrary gaps where no token precedes. -/
inductive SameTokens : Bytes → Bytes → Prop
  | tail (rest : Bytes) : SameTokens rest rest
  | tok {t : Bytes} {T : Nat × Bytes × Bool} {g₁ g₂ a b : Bytes} :
      SimpleTok t T → WsGap g₁ → WsGap g₂ → SameTokens a b → SameTokens (t ++ (g₁ ++ a)) (t ++ (g₂ ++ b))
  | gap {g₁ g₂ a b : Bytes} : Gap g₁ → Gap g₂ → SameTokens a b → SameTokens (g₁ ++ a) (g₂ ++ b)

theorem SameTokens.pumped {a b : Bytes} (h : SameTokens a b) :
    ∀ {s₁ s₂ : LState}, Ent s₁ a → Ent s₂ b → pumpedFrom s₁ = pumpedFrom s₂ := by
  induction h with
  | tail rest => intro s₁ s₂ e₁ e₂; exact pumpedFrom_core (e₁.coreEq e₂)
  | @tok t T g₁ g₂ a b ht h₁ h₂ _ ih =>
    intro s₁ s₂ e₁ e₂
    rw [simpleTok_then_gap ht h₁ a e₁ (ent_stateAt a), simpleTok_then_gap ht h₂ b e₂ (ent_stateAt b),
      ih (ent_stateAt a) (ent_stateAt b)]
  | @gap g₁ g₂ a b h₁ h₂ _ ih =>
    intro s₁ s₂ e₁ e₂
    rw [gap_trivia h₁ a e₁ (ent_stateAt a), gap_trivia h₂ b e₂ (ent_stateAt b), ih (ent_stateAt a) (ent_stateAt b)]

end DC.Lexer
