import DC.Model.SetOps

/-! Lemmas about `DC.Model.SetOps`: every checked index of `buildIntersectExceptTree` is in range and every loop
ends within its fuel, provided `len(ops) + 1 ≤ len(stmts)` (which the repair lines establish for every input). -/
namespace DC.Model.SetOps

theorem idx_lt {α} (l : List α) (i : Nat) (h : i < l.length) : idx l i = .ok l[i] := by
  simp [idx, h]

theorem idx_ge {α} (l : List α) (i : Nat) (h : l.length ≤ i) : idx l i = .panic := by
  simp [idx, h]

/-- the inner loop returns; it never moves `i` back, leaves it `≤ len(ops)` unless it did not move, and only grows the group -/
theorem inner_ok (stmts : List Stmt) (ops : List Op) (hlen : ops.length + 1 ≤ stmts.length) :
    ∀ (fuel i : Nat) (gs : List Stmt) (go : List Op), ops.length - i < fuel →
      ∃ i' gs' go', inner stmts ops fuel i gs go = .ok (i', gs', go') ∧ i ≤ i' ∧ (i' ≤ ops.length ∨ i' = i) ∧
        gs.length ≤ gs'.length := by
  intro fuel
  induction fuel with
  | zero => intro i gs go h; omega
  | succ f ih =>
    intro i gs go h
    unfold inner
    by_cases hi : i < ops.length
    · rw [if_pos hi, idx_lt ops i hi]
      simp only
      by_cases hop : isIntersectOp ops[i] = true
      · rw [if_pos hop, idx_lt stmts (i + 1) (by omega)]
        simp only
        obtain ⟨i', gs', go', he, h1, h2, h3⟩ := ih (i + 1) (gs ++ [stmts[i + 1]'(by omega)]) (go ++ [ops[i]]) (by omega)
        refine ⟨i', gs', go', he, by omega, ?_, ?_⟩
        · rcases h2 with h2 | h2
          · exact Or.inl h2
          · exact Or.inl (by omega)
        · simp only [List.length_append, List.length_singleton] at h3; omega
      · rw [if_neg hop]
        exact ⟨i, gs, go, rfl, Nat.le_refl _, Or.inr rfl, Nat.le_refl _⟩
    · rw [if_neg hi]
      exact ⟨i, gs, go, rfl, Nat.le_refl _, Or.inr rfl, Nat.le_refl _⟩

theorem mkGroup_ok (gs : List Stmt) (go : List Op) (_h : 1 ≤ gs.length) : ∃ g, mkGroup gs go = .ok g := by
  unfold mkGroup
  by_cases h1 : gs.length = 1
  · rw [if_pos h1, idx_lt gs 0 (by omega)]; exact ⟨_, rfl⟩
  · rw [if_neg h1]; exact ⟨_, rfl⟩

/-- the tail of the outer loop body returns; when it continues, it continues at `i + 1`, still inside `stmts`;
it appends at most one EXCEPT operator and none when it breaks -/
theorem afterGroup_ok (stmts : List Stmt) (ops : List Op) (i : Nat) (eo : List Op)
    (hlen : ops.length + 1 ≤ stmts.length) :
    ∃ r eo', afterGroup stmts ops i eo = .ok (r, eo') ∧ eo'.length ≤ eo.length + 1 ∧
      (∀ i'', r = some i'' → i'' = i + 1 ∧ i'' < stmts.length) ∧ (r = none → eo' = eo) := by
  unfold afterGroup
  by_cases hi : i < ops.length
  · rw [if_pos hi, idx_lt ops i hi]
    simp only
    by_cases hop : isIntersectOp ops[i] = true
    · simp only [hop, Bool.not_true, Bool.false_eq_true, if_false]
      by_cases h2 : (i : Int) < (stmts.length : Int) - 1
      · rw [if_pos h2]
        exact ⟨some (i + 1), eo, rfl, by omega, (by intro i'' h; cases h; omega), (by intro h; cases h)⟩
      · rw [if_neg h2]
        exact ⟨none, eo, rfl, by omega, (by intro i'' h; cases h), (fun _ => rfl)⟩
    · simp only [hop, Bool.not_false, if_true]
      refine ⟨some (i + 1), eo ++ [ops[i]], rfl, by simp, ?_, by intro h; cases h⟩
      intro i'' h; cases h; omega
  · rw [if_neg hi]
    by_cases h2 : (i : Int) < (stmts.length : Int) - 1
    · rw [if_pos h2]
      exact ⟨some (i + 1), eo, rfl, by omega, (by intro i'' h; cases h; omega), (by intro h; cases h)⟩
    · rw [if_neg h2]
      exact ⟨none, eo, rfl, by omega, (by intro i'' h; cases h), (fun _ => rfl)⟩

/-- the outer loop returns, with at least one more group than EXCEPT operators -/
theorem outer_ok (stmts : List Stmt) (ops : List Op) (hlen : ops.length + 1 ≤ stmts.length) :
    ∀ (fuel i : Nat) (groups : List Stmt) (eo : List Op), i < stmts.length → stmts.length - i ≤ fuel →
      eo.length ≤ groups.length →
      ∃ g e, outer stmts ops fuel i groups eo = .ok (g, e) ∧ e.length + 1 ≤ g.length := by
  intro fuel
  induction fuel with
  | zero => intro i groups eo hi hf; omega
  | succ f ih =>
    intro i groups eo hi hf hinv
    unfold outer
    rw [if_pos hi, idx_lt stmts i hi]
    simp only
    obtain ⟨i', gs', go', he, h1, h2, h3⟩ := inner_ok stmts ops hlen (ops.length + 1) i [stmts[i]] [] (by omega)
    rw [he]
    simp only
    obtain ⟨g, hg⟩ := mkGroup_ok gs' go' (by simpa using h3)
    rw [hg]
    simp only
    obtain ⟨r, eo', ha, hl, hcont, hbrk⟩ := afterGroup_ok stmts ops i' eo hlen
    rw [ha]
    cases r with
    | none =>
      simp only
      refine ⟨_, _, rfl, ?_⟩
      rw [hbrk rfl]; simp; omega
    | some i'' =>
      simp only
      obtain ⟨h4, h5⟩ := hcont i'' rfl
      exact ih i'' (groups ++ [g]) eo' h5 (by omega) (by simp; omega)

/-- the final EXCEPT fold returns -/
theorem foldExcept_ok (groups : List Stmt) (eo : List Op) (hlen : eo.length + 1 ≤ groups.length) :
    ∀ (fuel j : Nat) (result : Stmt), eo.length - j < fuel → ∃ r, foldExcept groups eo fuel j result = .ok r := by
  intro fuel
  induction fuel with
  | zero => intro j result h; omega
  | succ f ih =>
    intro j result h
    unfold foldExcept
    by_cases hj : j < eo.length
    · rw [if_pos hj, idx_lt groups (j + 1) (by omega), idx_lt eo j hj]
      simp only
      exact ih (j + 1) _ (by omega)
    · rw [if_neg hj]; exact ⟨_, rfl⟩

/-- the body of `buildIntersectExceptTree` returns whenever `stmts` is non-empty and `len(ops) ≤ len(stmts) - 1` -/
theorem buildCore_ok (stmts : List Stmt) (ops : List Op) (hne : stmts ≠ []) (hlen : ops.length + 1 ≤ stmts.length) :
    ∃ t, buildCore stmts ops = .ok t := by
  have hpos : 0 < stmts.length := List.length_pos_iff.mpr hne
  unfold buildCore
  by_cases h1 : stmts.length = 1
  · rw [if_pos h1, idx_lt stmts 0 hpos]; exact ⟨_, rfl⟩
  · rw [if_neg h1]
    obtain ⟨g, e, ho, hge⟩ := outer_ok stmts ops hlen (stmts.length + 1) 0 [] [] hpos (by omega) (Nat.le_refl _)
    rw [ho]
    simp only
    by_cases hg1 : g.length = 1
    · rw [if_pos hg1, idx_lt g 0 (by omega)]; exact ⟨_, rfl⟩
    · rw [if_neg hg1, idx_lt g 0 (by omega)]
      simp only
      exact foldExcept_ok g e hge (e.length + 1) 0 _ (by omega)

theorem build_ok (stmts : List Stmt) (ops : List Op) (hne : stmts ≠ []) : ∃ t, build stmts ops = .ok t := by
  have hpos : 0 < stmts.length := List.length_pos_iff.mpr hne
  unfold build
  by_cases h : (ops.length : Int) > (stmts.length : Int) - 1
  · rw [if_pos h]
    have hs : sliceTo ops ((stmts.length : Int) - 1) = .ok (ops.take (stmts.length - 1)) := by
      unfold sliceTo
      rw [if_pos (by omega)]
      congr 2
      omega
    rw [hs]
    simp only
    exact buildCore_ok stmts _ hne (by rw [List.length_take]; omega)
  · rw [if_neg h]
    exact buildCore_ok stmts ops hne (by omega)

/-! ## the collecting loop -/

/-- loop invariant of the collecting loop -/
def Inv (st : CState) : Prop :=
  st.stmts ≠ [] ∧ (st.broke = false → st.ops.length + 1 = st.stmts.length) ∧
    (st.broke = true → st.ops.length = st.stmts.length)

theorem step_inv (st : CState) (it : Op × Option Stmt) (h : Inv st) : Inv (step st it) := by
  obtain ⟨h0, h1, h2⟩ := h
  unfold step
  by_cases hb : st.broke = true
  · simp only [hb, if_true]; exact ⟨h0, h1, h2⟩
  · have hb' : st.broke = false := by simpa using hb
    simp only [hb', Bool.false_eq_true, if_false]
    rcases it with ⟨op, r⟩
    cases r with
    | none =>
      refine ⟨h0, (by simp), ?_⟩
      intro _; simp [h1 hb']
    | some s =>
      refine ⟨by simp, ?_, ?_⟩
      · intro _; simp [h1 hb']
      · intro h; simp at h

theorem foldl_inv (its : List (Op × Option Stmt)) : ∀ st, Inv st → Inv (its.foldl step st) := by
  induction its with
  | nil => intro st h; exact h
  | cons it rest ih => intro st h; exact ih _ (step_inv st it h)

theorem collect_inv (first : Stmt) (its : List (Op × Option Stmt)) : Inv (collect first its) :=
  foldl_inv its _ ⟨by simp, by intro _; rfl, by intro h; cases h⟩

end DC.Model.SetOps
