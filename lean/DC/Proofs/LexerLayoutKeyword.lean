import DC.Proofs.LexerLayoutGap
import DC.Props.C17

/-!
# Keywords in any letter case (C05 / C17 `keyword_case`)

`lookupIdent_caseVariant`: the model's `token.Lookup(strings.ToUpper(ident))` finds keyword `k` from every ASCII
letter-case variant of `k`'s spelling. The quantification over keywords goes through the table theorems of
`DC.Props.C17` (`keyword_spelling`, `map_exact`, `spelling_injective`) and two further kernel-decided facts about
the regenerated tables (`toUpperAscii_high`, `keyword_start_ok`); no keyword is named here.
`readIdentifier_keyword` / `keyword_tok`: the scanner returns kind `k`, the value exactly as written, and enters
what follows.
-/
namespace DC.Lexer
open DC.Utf8 DC.Gen.Tokens DC.Spec.KeywordTable
set_option maxRecDepth 100000

/-- ASCII upper-casing of one code point. -/
def asciiUpper (n : Nat) : Nat := if 97 ≤ n ∧ n ≤ 122 then n - 32 else n

/-- the code points of a keyword's spelling. -/
def spellingRunes (k : Nat) : List Nat := (spellingOf k).toList.map Char.toNat

/-- `c` is an ASCII letter-case variant of the spelling of token `k`. -/
def CaseVariant (c : Bytes) (k : Nat) : Prop := c.map (fun b => asciiUpper b.toNat) = spellingRunes k

theorem toUpperAscii_high : DC.Gen.Unicode.toUpperAscii.all (fun p => decide (128 ≤ p.1)) = true := by decide

theorem lookup_none_of_all {l : List (Nat × Nat)} {n : Nat} (h : l.all (fun p => decide (128 ≤ p.1)) = true)
    (hn : n < 128) : l.lookup n = none := by
  induction l with
  | nil => rfl
  | cons p l ih =>
    simp only [List.all_cons, Bool.and_eq_true, decide_eq_true_eq] at h
    obtain ⟨a, b⟩ := p
    rw [List.lookup_cons]
    have : (n == a) = false := by simp; omega
    rw [this]
    exact ih h.2

theorem toUpperRune_ascii (n : Nat) (h : n < 128) : toUpperRune n = asciiUpper n := by
  unfold toUpperRune asciiUpper
  split
  · rfl
  · rw [lookup_none_of_all toUpperAscii_high h]

/-- on ASCII input, `strings.ToUpper(ident) == kw` is byte-wise ASCII upper-casing. -/
theorem upperMatches_ascii (c : Bytes) (hc : ∀ b ∈ c, b.toNat < 128) (ks : List Nat) :
    upperMatches c ks = true ↔ c.map (fun b => asciiUpper b.toNat) = ks := by
  induction c generalizing ks with
  | nil => cases ks <;> simp [upperMatches]
  | cons b bs ih =>
    cases ks with
    | nil => simp [upperMatches]
    | cons k ks =>
      have hb := hc b (List.mem_cons_self ..)
      simp only [upperMatches, decodeRune_ascii b bs hb, List.drop_one, List.tail_cons, Bool.and_eq_true,
        decide_eq_true_eq, List.map_cons, List.cons.injEq, toUpperRune_ascii _ hb]
      rw [ih (fun x hx => hc x (List.mem_cons_of_mem _ hx))]

theorem ident_not_keyword : isKeyword tIDENT = false := by decide +kernel

/-- every keyword of the table is in the `Keywords` map under its spelling. -/
theorem keyword_mem (k : Nat) (hk : isKeyword k = true) : (spellingOf k, k) ∈ keywords := by
  have h := (DC.Props.C17.keyword_spelling k hk).2.2
  unfold lookup at h
  cases hf : keywords.find? (fun p => p.1 == spellingOf k) with
  | none =>
    rw [hf] at h
    simp only [] at h
    rw [← h, ident_not_keyword] at hk
    cases hk
  | some p =>
    rw [hf] at h
    simp only [] at h
    have h1 := List.find?_some hf
    have h2 := List.mem_of_find?_eq_some hf
    simp only [beq_iff_eq] at h1
    obtain ⟨a, b⟩ := p
    simp only [] at h h1
    subst h; subst h1
    exact h2

theorem map_entries_ok : keywords.all (fun p => isKeyword p.2 && spellingOf p.2 == p.1) = true := by
  have := DC.Props.C17.map_exact
  simp only [mapExact, Bool.and_eq_true] at this
  exact this.1.1

theorem toList_map_toNat_inj {a b : String} (h : a.toList.map Char.toNat = b.toList.map Char.toNat) : a = b := by
  have : a.toList = b.toList := by
    exact (List.map_inj_right (fun x y hxy => Char.ext (UInt32.toNat_inj.1 hxy))).1 h
  exact String.toList_inj.1 this

/-- `token.Lookup(strings.ToUpper(c))` of an ASCII case variant of a keyword's spelling is that keyword. -/
theorem lookupIdent_caseVariant (k : Nat) (hk : isKeyword k = true) (c : Bytes) (hc : ∀ b ∈ c, b.toNat < 128)
    (hv : CaseVariant c k) : lookupIdent c = k := by
  unfold lookupIdent
  have hmem : (spellingRunes k, k) ∈ keywordRunes := by
    unfold keywordRunes
    exact List.mem_map.2 ⟨(spellingOf k, k), keyword_mem k hk, rfl⟩
  cases hf : keywordRunes.find? (fun p => upperMatches c p.1) with
  | none =>
    have := List.find?_eq_none.1 hf _ hmem
    exact absurd ((upperMatches_ascii c hc _).2 hv) (by simpa using this)
  | some p =>
    simp only []
    have h1 := List.find?_some hf
    have h2 := List.mem_of_find?_eq_some hf
    unfold keywordRunes at h2
    obtain ⟨q, hq, rfl⟩ := List.mem_map.1 h2
    simp only [] at h1 ⊢
    have h3 := (upperMatches_ascii c hc _).1 h1
    have h4 : q.1 = spellingOf k := toList_map_toNat_inj (h3.symm.trans hv)
    have h5 := List.all_eq_true.1 map_entries_ok q hq
    simp only [Bool.and_eq_true, beq_iff_eq] at h5
    exact DC.Props.C17.spelling_injective q.2 k h5.1 hk (h5.2.trans h4)


/-! ## the shape of keyword spellings -/

/-- `A-Z`, `_`, `0-9` (what `isUpperSpelling` allows). -/
def upperShape (n : Nat) : Prop := (65 ≤ n ∧ n ≤ 90) ∨ n = 95 ∨ (48 ≤ n ∧ n ≤ 57)

theorem char_upperShape (ch : Char)
    (h : (('A' ≤ ch && ch ≤ 'Z') || ch == '_' || ('0' ≤ ch && ch ≤ '9')) = true) : upperShape ch.toNat := by
  simp only [Bool.or_eq_true, Bool.and_eq_true, decide_eq_true_eq, beq_iff_eq] at h
  unfold upperShape
  rcases h with (⟨h1, h2⟩ | h) | ⟨h1, h2⟩
  · rw [Char.le_def, UInt32.le_iff_toNat_le] at h1 h2
    exact Or.inl ⟨h1, h2⟩
  · subst h; exact Or.inr (Or.inl rfl)
  · rw [Char.le_def, UInt32.le_iff_toNat_le] at h1 h2
    exact Or.inr (Or.inr ⟨h1, h2⟩)

theorem spellingRunes_shape (k : Nat) (hk : isKeyword k = true) : ∀ n ∈ spellingRunes k, upperShape n := by
  intro n hn
  have h := (DC.Props.C17.keyword_spelling k hk).2.1
  unfold isUpperSpelling at h
  unfold spellingRunes at hn
  obtain ⟨ch, hch, rfl⟩ := List.mem_map.1 hn
  exact char_upperShape ch (List.all_eq_true.1 h ch hch)

theorem spellingRunes_ne_nil (k : Nat) (hk : isKeyword k = true) : spellingRunes k ≠ [] := by
  intro h
  have h1 := (DC.Props.C17.keyword_spelling k hk).1
  apply h1
  apply String.toList_inj.1
  unfold spellingRunes at h
  simpa using h

/-- table fact: every keyword's spelling starts with a letter or `_` (so that `NextToken` enters
`readIdentifier` and not the number scanner). Re-decided on the regenerated table. -/
def keywordStartOk : Bool :=
  keywordTokens.all fun k =>
    match (spellingOf k).toList with
    | ch :: _ => ('A' ≤ ch && ch ≤ 'Z') || ch == '_'
    | [] => false

theorem keyword_start_ok : keywordStartOk = true := by decide +kernel

/-- a variant byte of an upper-shape code point. -/
def identShape (n : Nat) : Prop := (65 ≤ n ∧ n ≤ 90) ∨ (97 ≤ n ∧ n ≤ 122) ∨ n = 95 ∨ (48 ≤ n ∧ n ≤ 57)

theorem identShape_of_upper {n : Nat} (h : upperShape (asciiUpper n)) : identShape n := by
  unfold upperShape asciiUpper at h
  unfold identShape
  split at h <;> omega

theorem isIdentChar_of_shape : ∀ n, n < 128 →
    ((65 ≤ n ∧ n ≤ 90) ∨ (97 ≤ n ∧ n ≤ 122) ∨ n = 95 ∨ (48 ≤ n ∧ n ≤ 57)) → isIdentChar n = true := by
  decide

theorem identShape_lt {n : Nat} (h : identShape n) : n < 128 := by unfold identShape at h; omega

/-- the bytes of a case variant are ASCII identifier characters. -/
theorem caseVariant_bytes {c : Bytes} {k : Nat} (hk : isKeyword k = true) (hv : CaseVariant c k) :
    ∀ b ∈ c, identShape b.toNat := by
  intro b hb
  apply identShape_of_upper
  apply spellingRunes_shape k hk
  rw [← hv]
  exact List.mem_map.2 ⟨b, hb, rfl⟩

theorem caseVariant_ne_nil {c : Bytes} {k : Nat} (hk : isKeyword k = true) (hv : CaseVariant c k) : c ≠ [] := by
  intro h
  subst h
  exact spellingRunes_ne_nil k hk hv.symm

/-! ## `readIdentifier` on a case variant -/

theorem identCharCond_live (s : LState) (_ : s.eof = false) : identCharCond s = isIdentChar s.ch := rfl

theorem readIdentifier_keyword (k : Nat) (hk : isKeyword k = true) (c : Bytes) (hv : CaseVariant c k)
    (rest : Bytes) (hrest : isIdentChar (firstRune rest) = false) (hq : c.length = 1 → firstRune rest ≠ 39)
    {s : LState} (hs : Ent s (c ++ rest)) :
    ∃ r, readIdentifier s = .ok r ∧ r.1.kvq = (k, c, false) ∧ Ent r.2 rest := by
  have hshape := caseVariant_bytes hk hv
  have hascii : ∀ b ∈ c, b.toNat < 128 := fun b hb => identShape_lt (hshape b hb)
  have hsp := spells_ascii hascii
  obtain ⟨ha, hst⟩ := scanWhile_run identCharCond identCharCond_ok isIdentChar identCharCond_live hsp
    (by
      intro r hr
      obtain ⟨b, hb, rfl⟩ := List.mem_map.1 hr
      exact isIdentChar_of_shape _ (hascii b hb) (hshape b hb))
    hrest [] hs
  have hval : (scanWhile identCharCond identCharCond_ok s []).2.reverse = c := by
    rw [ha, List.append_nil, List.reverse_reverse, enc_ascii hascii]
  -- the `x'…'` / `b'…'` tests do not fire
  have hpk : ¬ peekChar s = 39 := by
    cases c with
    | nil => exact absurd rfl (caseVariant_ne_nil hk hv)
    | cons c0 cs =>
      have d0 : Dec [c0] c0.toNat := dec_ascii (hascii c0 (List.mem_cons_self ..))
      have hs' : Ent s ([c0] ++ (cs ++ rest)) := hs
      rw [hs'.peek d0 39 (by decide)]
      cases cs with
      | nil => exact hq rfl
      | cons c1 cs =>
        have h1 := hshape c1 (List.mem_cons_of_mem _ (List.mem_cons_self ..))
        rw [show (c1 :: cs) ++ rest = c1 :: (cs ++ rest) from rfl, firstRune_cons_ascii c1 _ (identShape_lt h1)]
        unfold identShape at h1; omega
  unfold readIdentifier
  rw [if_neg (fun h => hpk h.2), if_neg (fun h => hpk h.2)]
  refine ⟨_, rfl, ?_, hst⟩
  simp only [kvq_tokAt, hval]
  rw [lookupIdent_caseVariant k hk c hascii hv]

/-! ## `NextToken` on an ASCII letter or underscore -/

/-- `A-Z`, `a-z`, `_`. -/
def startShape (n : Nat) : Prop := (65 ≤ n ∧ n ≤ 90) ∨ (97 ≤ n ∧ n ≤ 122) ∨ n = 95

theorem startShape_facts : ∀ n, n < 128 → ((65 ≤ n ∧ n ≤ 90) ∨ (97 ≤ n ∧ n ≤ 122) ∨ n = 95) →
    isWs n = false ∧ singleCharKind n = none ∧ isDigit n = false ∧ isIdentStart n = true := by
  decide

theorem nextTokenE_identStart {s : LState} (he : s.eof = false) (h : startShape s.ch) :
    nextTokenE s = readIdentifier s := by
  unfold startShape at h
  obtain ⟨h1, h2, h3, h4⟩ := startShape_facts s.ch (by omega) h
  have hop : readOperator s = none := by
    unfold readOperator
    simp only []
    iterate 7 rw [if_neg (by omega)]
  rw [nextTokenE_live h1 he (by omega), if_neg (by omega), if_neg (by omega), if_neg (by omega), if_neg (by omega)]
  unfold nextTokenSwitch
  rw [h2]
  simp only [hop]
  rw [if_neg (by omega), if_neg (by omega), if_neg (by omega), if_neg (by omega), if_neg (by omega),
    if_neg (by omega), if_neg (by omega), if_neg (by omega), if_neg (by omega), if_neg (by rw [h3]; decide),
    if_pos h4]

theorem caseVariant_start {c : Bytes} {k : Nat} (hk : isKeyword k = true) (hv : CaseVariant c k) :
    ∃ c0 cs, c = c0 :: cs ∧ startShape c0.toNat := by
  have hlt : k < count := DC.Props.C17.isKeyword_lt k hk
  have hmem : k ∈ keywordTokens := by
    simp [keywordTokens, List.mem_filter, List.mem_range, hlt, hk]
  have h := List.all_eq_true.1 keyword_start_ok k hmem
  cases c with
  | nil => exact absurd rfl (caseVariant_ne_nil hk hv)
  | cons c0 cs =>
    refine ⟨c0, cs, rfl, ?_⟩
    unfold CaseVariant spellingRunes at hv
    cases hl : (spellingOf k).toList with
    | nil => rw [hl] at hv; simp at hv
    | cons ch t =>
      rw [hl] at hv h
      simp only [List.map_cons, List.cons.injEq] at hv
      simp only [Bool.or_eq_true, Bool.and_eq_true, decide_eq_true_eq, beq_iff_eq] at h
      have hu : (65 ≤ ch.toNat ∧ ch.toNat ≤ 90) ∨ ch.toNat = 95 := by
        rcases h with ⟨h1, h2⟩ | h
        · rw [Char.le_def, UInt32.le_iff_toNat_le] at h1 h2
          exact Or.inl ⟨h1, h2⟩
        · subst h; exact Or.inr rfl
      have h0 := hv.1
      unfold asciiUpper at h0
      unfold startShape
      split at h0 <;> omega

/-- `NextToken` on a case variant of keyword `k`: kind `k`, value as written, and the lexer enters `rest`. -/
theorem keyword_tok (k : Nat) (hk : isKeyword k = true) (c : Bytes) (hv : CaseVariant c k)
    (rest : Bytes) (hrest : isIdentChar (firstRune rest) = false) (hq : c.length = 1 → firstRune rest ≠ 39)
    {s : LState} (hs : Ent s (c ++ rest)) :
    (nextToken s).1.kvq = (k, c, false) ∧ Ent (nextToken s).2 rest := by
  obtain ⟨c0, cs, rfl, hst⟩ := caseVariant_start hk hv
  have hlt : c0.toNat < 128 := by unfold startShape at hst; omega
  have hs' : Ent s ([c0] ++ (cs ++ rest)) := hs
  obtain ⟨hch, he, _⟩ := hs'.dec (dec_ascii hlt)
  obtain ⟨r, hr, hk1, hk2⟩ := readIdentifier_keyword k hk _ hv rest hrest hq hs
  have : nextTokenE s = .ok r := by
    rw [nextTokenE_identStart he (by rw [hch]; exact hst), hr]
  rw [nextToken_of_E this]
  exact ⟨hk1, hk2⟩

/-- at EOF `NextToken` answers EOF. -/
theorem eof_tok {s : LState} (hs : Ent s []) : (nextToken s).1.kvq = (tEOF, [], false) := by
  obtain ⟨he, hz⟩ := hs.nil
  have hw : skipWhitespace s = s := skipWhitespace_not_ws (by rw [hz]; exact isWs_zero)
  have hk : (nextToken s).1.kind = tEOF := (nextToken_eof_iff s).2 (Or.inl (by rw [hw]; exact he))
  rw [nextToken_eof_state hk]
  rfl

theorem keyword_ne_eof (k : Nat) (hk : isKeyword k = true) : k ≠ tEOF := by
  intro h
  subst h
  have : isKeyword tEOF = false := by decide +kernel
  rw [this] at hk
  cases hk

/-- the whole input is one case variant of a keyword: two tokens, the keyword (as written) and EOF. -/
theorem keyword_lex (k : Nat) (hk : isKeyword k = true) (c : Bytes) (hv : CaseVariant c k) :
    (lex c).map Tok.kvq = [(k, c, false), (tEOF, [], false)] := by
  have hs : Ent (stateAt c) (c ++ []) := by rw [List.append_nil]; exact ent_stateAt c
  obtain ⟨h1, h2⟩ := keyword_tok k hk c hv [] (by rw [firstRune_nil]; decide) (by rw [firstRune_nil]; intro _; decide) hs
  have hne : (nextToken (stateAt c)).1.kind ≠ tEOF := by
    rw [kind_of_kvq h1]; exact keyword_ne_eof k hk
  have h3 := eof_tok h2
  rw [lex_eq_lexFrom, lexFrom_cons hne, lexFrom_eof (kind_of_kvq h3)]
  simp only [List.map_cons, List.map_nil, h1, h3]

end DC.Lexer
