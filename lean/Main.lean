import DC.Driver

/-! Line-protocol driver: one request per line on stdin, one answer per line on stdout.
A request is `<op> <arg> …` (space separated; byte strings are hex, "-" = empty).
Each model module contributes a handler to `DC.Driver.handlers`. -/

partial def loop (hin : IO.FS.Stream) (hout : IO.FS.Stream) : IO Unit := do
  let line ← hin.getLine
  if line.isEmpty then return ()
  let line := (line.dropEndWhile (fun c => c == '\n' || c == '\r')).toString
  let out := DC.Driver.dispatch line
  hout.putStrLn out
  hout.flush
  loop hin hout

def main : IO Unit := do
  loop (← IO.getStdin) (← IO.getStdout)
