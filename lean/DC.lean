import DC.Prelude.Hex
import DC.Gen.Tokens
import DC.Gen.Unicode
import DC.Driver
