import DC.Prelude.Hex
import DC.Gen.Tokens
import DC.Gen.Unicode
import DC.Driver
import DC.Props.C14
import DC.Props.C15
