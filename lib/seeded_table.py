#!/usr/bin/env python3
"""Regenerate the seeded-change table of DESIGN.md §0.1 from seeded/*/meta.json."""
import json, glob, os
rows = []
for d in sorted(glob.glob('/verif/seeded/*/')):
    m = json.load(open(d + 'meta.json'))
    sid = os.path.basename(d.rstrip('/'))
    det = m.get('detected_by', {})
    how = 'concrete failing input' if not det.get('no_failing_input_found_only') else 'broken obligation / correspondence (no-failing-input-found)'
    keys = det.get('finding_keys') or det.get('broken_obligations') or []
    summ = (m.get('summary') or '').replace('\n', ' ').replace('|', '/')
    summ = summ[:150] + ('…' if len(summ) > 150 else '')
    needs = (m.get('needs') or '').replace('\n', ' ').replace('|', '/')
    needs = needs[:140] + ('…' if len(needs) > 140 else '')
    rows.append("| %s | %s | %s | %s: `%s` |" % (sid, summ, needs, how, (keys[0] if keys else '?')[:70]))
tbl = "| id | change | needs, to manifest | caught by `./check <property>` (quick) |\n|---|---|---|---|\n" + "\n".join(rows) + "\n"
s = open('/verif/DESIGN.md').read()
a = s.index("| id | change | needs, to manifest |")
b = s.index("Contents\n")
s = s[:a] + tbl + "\n" + s[b:]
open('/verif/DESIGN.md', 'w').write(s)
print(len(rows), "rows")
