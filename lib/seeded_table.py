#!/usr/bin/env python3
"""Regenerate the seeded-change table of DESIGN.md §0.1 from seeded/*/meta.json."""
import json, glob, os
rows = []
for d in sorted(glob.glob('/verif/seeded/*/')):
    m = json.load(open(d + 'meta.json'))
    sid = os.path.basename(d.rstrip('/'))
    det = m.get('detected_by', {})
    how = 'concrete failing input' if not det.get('no_failing_input_found_only') else 'broken obligation / correspondence (no-failing-input-found)'
    keys = det.get('finding_keys') or det.get('broken_obligations') or []
    summ = (m.get('summary') or '').replace('\n', ' ').replace('|', '/')
    summ = summ[:120] + ('…' if len(summ) > 120 else '')
    needs = (m.get('needs') or '').replace('\n', ' ').replace('|', '/')
    needs = needs[:100] + ('…' if len(needs) > 100 else '')
    fp = det.get('first_pass', '')
    mark = ' †' if fp.startswith('not reported') else (' ‡' if fp else '')
    rows.append("| %s | %s | %s | %s: `%s`%s |" % (sid, summ, needs, how, (keys[0] if keys else '?')[:70], mark))
tbl = "| id | change | needs, to manifest | caught by `./check <property>` (quick) |\n|---|---|---|---|\n" + "\n".join(rows) + "\n\n† not reported by the checks as they stood when the change was written, reported after the generic extension described above; ‡ first reported only through a broken obligation or pin, now with a concrete input.\n"
s = open('/verif/DESIGN.md').read()
a = s.index("| id | change | needs, to manifest |")
b = s.index("Contents\n")
s = s[:a] + tbl + "\n" + s[b:]
open('/verif/DESIGN.md', 'w').write(s)
print(len(rows), "rows")
