"""Rebuild everything a check needs from /repo's current working tree (serialised by a file lock)."""
import os, subprocess, fcntl, json, time, filecmp, shutil, re, tempfile

V = os.environ.get("VERIF_HOME", "/verif")
REPO = os.environ.get("VERIF_REPO", "/repo")
LEAN = os.path.join(V, "lean")
BIN = os.path.join(V, "bin")
GOENV = dict(os.environ, GOFLAGS="-mod=mod", GOPROXY="off")
GOENV.pop("GOTOOLCHAIN", None)
GOENV.pop("GOSUMDB", None)


def sh(cmd, cwd=None, env=None, timeout=3600):
    p = subprocess.run(cmd, cwd=cwd, env=env, shell=isinstance(cmd, str), capture_output=True, text=True, errors="replace", timeout=timeout)
    return p.returncode, p.stdout + p.stderr


def sync_gen(tmp):
    """Replace DC/Gen by the freshly generated files; untouched files keep their mtime so lake stays incremental."""
    gen = os.path.join(LEAN, "DC", "Gen")
    os.makedirs(gen, exist_ok=True)
    changed = []
    new = set(os.listdir(tmp))
    for f in os.listdir(gen):
        if f.endswith(".lean") and f not in new and f not in HANDMADE_GEN:
            os.remove(os.path.join(gen, f)); changed.append("-" + f)
    for f in sorted(new):
        src, dst = os.path.join(tmp, f), os.path.join(gen, f)
        if not os.path.exists(dst) or not filecmp.cmp(src, dst, shallow=False):
            shutil.copyfile(src, dst); changed.append(f)
    return changed


# Gen files that are still hand-made placeholders (to be emptied as the translator grows)
HANDMADE_GEN = set()


def prepare():
    os.makedirs(BIN, exist_ok=True)
    lock = open(os.path.join(BIN, ".lock"), "w")
    fcntl.flock(lock, fcntl.LOCK_EX)
    t0 = time.time()
    st = {"ok": True, "errors": [], "lake_failed_modules": [], "gen_changed": []}
    if os.environ.get("VERIF_REUSE_PREP") and os.path.exists(os.path.join(BIN, "prepare.json")):
        # development aid for batches of checks on one frozen tree (lib/trial scripts); never used by MANIFEST commands
        try:
            with open(os.path.join(BIN, "prepare.json")) as f:
                return json.load(f)
        except Exception:
            pass
    try:
        # 1. harness against /repo's working tree, hooks on
        modargs = []
        if REPO != "/repo":
            # isolated trial: same harness sources, module replaced by the trial copy of the repository
            alt = os.path.join(BIN, "alt.mod")
            with open(os.path.join(V, "harness", "go.mod")) as f:
                txt = f.read().replace("=> /repo", "=> " + REPO)
            with open(alt, "w") as f:
                f.write(txt)
            open(os.path.join(BIN, "alt.sum"), "w").close()
            modargs = ["-modfile=" + alt]
        rc, out = sh(["go", "build"] + modargs + ["-tags", "verif", "-o", os.path.join(BIN, "harness"), "."], cwd=os.path.join(V, "harness"), env=GOENV)
        if rc != 0:
            st["ok"] = False; st["errors"].append("harness build failed:\n" + out[-3000:])
            return st
        # 2. regenerate DC/Gen
        tmp = tempfile.mkdtemp(prefix="verif-gen-")
        try:
            rc, out = sh([os.path.join(BIN, "harness"), "tool", "gen-lean", tmp], env=dict(os.environ, VERIF_REPO=REPO))
            if rc != 0:
                st["ok"] = False; st["errors"].append("gen-lean failed:\n" + out[-2000:]); return st
            if os.path.isdir(os.path.join(V, "extract")):
                rc, out = sh(["go", "build", "-o", os.path.join(BIN, "extract"), "."], cwd=os.path.join(V, "extract"), env=GOENV)
                if rc != 0:
                    st["ok"] = False; st["errors"].append("extract build failed:\n" + out[-3000:]); return st
                rc, out = sh([os.path.join(BIN, "extract"), "--repo", REPO, "--lean", tmp, "--json", os.path.join(BIN, "facts.json")], env=dict(GOENV, VERIF_NODEKINDS_CACHE=os.path.join(BIN, "nodekinds.cache")))
                if rc != 0:
                    st["ok"] = False; st["errors"].append("extract failed:\n" + out[-3000:]); return st
            st["gen_changed"] = sync_gen(tmp)
        finally:
            shutil.rmtree(tmp, ignore_errors=True)
        # 3. lake build: re-checks every theorem and regenerated obligation
        rc, out = sh(["lake", "build"], cwd=LEAN, timeout=7200)
        st["lake_rc"] = rc
        with open(os.path.join(BIN, "lake.log"), "w") as f:
            f.write(out)
        if rc != 0:
            failed = sorted(set(re.findall(r"^✖ \[\d+/\d+\] (?:Building|Built|Running) ([A-Za-z0-9_.]+)", out, re.M)))
            failed += [m for m in re.findall(r"^- ([A-Za-z0-9_.]+)$", out, re.M) if m not in failed]
            st["lake_failed_modules"] = failed
            st["lake_tail"] = out[-4000:]
        st["dcmodel"] = os.path.exists(os.path.join(LEAN, ".lake", "build", "bin", "dcmodel"))
        if rc != 0 and ("dcmodel" in " ".join(st["lake_failed_modules"]) or any(m.startswith(("DC.Model", "DC.Spec", "DC.Prelude", "DC.Driver", "Main", "DC.Gen")) for m in st["lake_failed_modules"])):
            st["dcmodel"] = False
        st["prepare_s"] = round(time.time() - t0, 1)
        return st
    finally:
        with open(os.path.join(BIN, "prepare.json"), "w") as f:
            json.dump(st, f, indent=1)
        fcntl.flock(lock, fcntl.LOCK_UN)
