#!/usr/bin/env python3
"""Regenerate /verif/MANIFEST.json from lib/propcfg.json (claimed checks) and properties.jsonl."""
import json, os, subprocess
V = "/verif"
cfg = json.load(open(os.path.join(V, "lib", "propcfg.json")))
ids = [json.loads(l)["id"] for l in open(os.path.join(V, "properties.jsonl"))]
hooks = subprocess.run(["git", "-C", "/repo", "log", "--format=%H %s"], capture_output=True, text=True).stdout.splitlines()
hook_commits = [l.split()[0] for l in hooks if l.split(" ", 1)[1].startswith("verif hook")]
checks, na = [], []
for pid in ids:
    c = cfg.get(pid)
    if not c or c.get("unclaimed"):
        na.append({"property_id": pid, "reason": (c or {}).get("unclaimed", "check not built yet (work in progress); not claimed")})
        continue
    checks.append({
        "property_id": pid,
        "quick_cmd": "./check %s --tier quick" % pid,
        "thorough_cmd": "./check %s --tier thorough" % pid,
        "evidence_file": "/verif/evidence/%s.json" % pid,
        "replay_cmd_template": "./check %s --replay {path}" % pid,
        "engine": "lean4+harness",
        "level_claimed": {"category": c["level"], "text": c["level_text"], "design_ref": c.get("design_ref", "DESIGN.md §6 " + pid)},
        "level_note": c["level_note"],
        "technique": c["technique"],
    })
m = {
    "version": 1,
    "setup_cmd": "./setup.sh",
    "hooks": {
        "guard": "verif",
        "enable": "go build -tags verif (the harness module in /verif/harness replaces github.com/sqlc-dev/doubleclick by /repo and is always built with -tags verif)",
        "baseline_off_cmd": "cd /repo && GOFLAGS=-mod=mod GOPROXY=off go test -json -vet=off -count=1 -timeout 25m ./...",
        "source_commits": hook_commits,
        "add_only": True,
    },
    "engines": [
        {"name": "lean4+harness", "path": "/verif/check", "serves_properties": [c["property_id"] for c in checks],
         "kind_free_text": "Lean 4 theorems over hand-written executable models (lake build re-checks them and the obligations regenerated from the Go source on every run) + Go correspondence/search harness driving the real code in-process and the compiled Lean model over a line protocol"}
    ],
    "checks": checks,
    "not_applicable": na,
    "notes": "Every check rebuilds the harness and the regenerated Lean tables from /repo's working tree, runs `lake build`, audits the property's theorems, compares source pins of modelled functions, then runs the correspondence/search. See DESIGN.md.",
}
json.dump(m, open(os.path.join(V, "MANIFEST.json"), "w"), indent=1)
print("claimed:", [c["property_id"] for c in checks], "unclaimed:", [n["property_id"] for n in na])
