#!/bin/bash
# lib/trial.sh <name> <patch.diff> <tier> <PROP>...   — run checks against a patched COPY of /repo with a COPY of /verif
# (isolated: neither /repo nor /verif is touched). Prints one line per property: <PROP> rc=<exit code> + VIOLATION lines.
set -u
name=$1; patch=$2; tier=$3; shift 3
T=/tmp/trial-$name
rm -rf "$T"; mkdir -p "$T"
git -C /repo worktree prune
git -C /repo worktree add -q --detach "$T/repo" HEAD || exit 9
if [ "$patch" != "-" ]; then git -C "$T/repo" apply "$patch" || { echo "patch does not apply"; git -C /repo worktree remove --force "$T/repo"; exit 9; }; fi
rsync -a --exclude .git --exclude replays --exclude evidence --exclude seeded /verif/ "$T/verif/"
cd "$T/verif"
for p in "$@"; do
  VERIF_HOME=$T/verif VERIF_REPO=$T/repo ./check $p --tier $tier > "$T/$p.log" 2>&1
  rc=$?
  echo "$p rc=$rc $(grep -a -c '^VIOLATION' "$T/$p.log") violation line(s)"
  grep -a '^VIOLATION' "$T/$p.log" | head -4
  grep -a -A2 '^VIOLATION' "$T/$p.log" | grep -a -v '^VIOLATION\|^--' | head -6 | cut -c1-300
done
cd /
git -C /repo worktree remove --force "$T/repo"
rm -rf "$T/verif" 
