"""Per-property orchestration: Lean obligations + source pins + harness run -> verdict + evidence."""
import os, json, re, subprocess, time, hashlib

V = os.environ.get("VERIF_HOME", "/verif")
LEAN = os.path.join(V, "lean")
BIN = os.path.join(V, "bin")
ALLOWED_AXIOMS = {"propext", "Classical.choice", "Quot.sound"}
FORBIDDEN = re.compile(r"\b(sorry|admit|native_decide|bv_decide|implemented_by|unsafe)\b|^axiom |maxHeartbeats 0", re.M)

with open(os.path.join(V, "lib", "propcfg.json")) as f:
    PROPS = json.load(f)

KERNEL_TB = "Lean 4.33.0 kernel (theorems re-checked by `lake build` on every run); axioms as listed per theorem (subset of propext, Classical.choice, Quot.sound); no native_decide / bv_decide / sorry"


def strip_comments(src):
    src = re.sub(r"/-.*?-/", "", src, flags=re.S)
    src = re.sub(r"--[^\n]*", "", src)
    return src


def module_files(mod):
    return os.path.join(LEAN, *mod.split(".")) + ".lean"


def lean_imports(mod, seen):
    """Transitive DC.* imports of a module (source level)."""
    if mod in seen:
        return
    seen.add(mod)
    p = module_files(mod)
    if not os.path.exists(p):
        return
    for m in re.findall(r"^import\s+(DC[A-Za-z0-9_.]*)", open(p).read(), re.M):
        lean_imports(m, seen)


def audit(pid, state):
    """Enumerate the theorems of DC.Props.<pid> with their axioms. Returns (obligations, problems)."""
    cfg = PROPS[pid]
    mods = cfg.get("lean_modules", [])
    obligations, problems = [], []
    for mod in mods:
        path = module_files(mod)
        if not os.path.exists(path):
            problems.append({"obligation": mod, "why": "module missing"})
            continue
        deps = set()
        lean_imports(mod, deps)
        failed = [m for m in state.get("lake_failed_modules", []) if m in deps]
        if failed:
            problems.append({"obligation": mod, "why": "lake build failed for " + ", ".join(failed), "log": state.get("lake_tail", "")[-1500:]})
            continue
        for d in sorted(deps):
            src = open(module_files(d)).read() if os.path.exists(module_files(d)) else ""
            m = FORBIDDEN.search(strip_comments(src))
            if m and not d.startswith("DC.Gen"):
                problems.append({"obligation": d, "why": "forbidden construct: " + m.group(0).strip()})
        script = os.path.join(LEAN, ".lake", "audit_%s.lean" % mod.replace(".", "_"))
        os.makedirs(os.path.dirname(script), exist_ok=True)
        with open(script, "w") as f:
            f.write("import Lean.Elab.Command\nimport Lean.Util.CollectAxioms\nimport %s\nopen Lean Elab Command in\nrun_cmd do\n  let env ← getEnv\n  let pre := `%s\n"
                    "  let mut names : Array Name := #[]\n"
                    "  for (n, ci) in env.constants.toList do\n"
                    "    if pre.isPrefixOf n && !n.isInternal && (match ci with | .thmInfo _ => true | _ => false) then names := names.push n\n"
                    "  for n in names.qsort (fun a b => a.toString < b.toString) do\n"
                    "    let ax ← liftCoreM (collectAxioms n)\n"
                    "    logInfo m!\"AUDIT {n} :: {ax.toList}\"\n" % (mod, mod))
        p = subprocess.run(["lake", "env", "lean", script], cwd=LEAN, capture_output=True, text=True, errors="replace")
        out = p.stdout + p.stderr
        if p.returncode != 0:
            problems.append({"obligation": mod, "why": "audit script failed", "log": out[-1500:]})
            continue
        found = re.findall(r"AUDIT (\S+) :: \[(.*?)\]", out, re.S)
        if not found:
            problems.append({"obligation": mod, "why": "no theorems found in module"})
        for name, axs in found:
            if re.search(r"\.eq_\d+$|\.eq_def$|\.match_\d+", name):
                continue  # auto-generated equation lemmas of definitions, not property theorems
            axl = [a.strip() for a in axs.replace("\n", " ").split(",") if a.strip()]
            ok = all(a in ALLOWED_AXIOMS for a in axl)
            obligations.append({"theorem": name, "axioms": axl, "ok": ok})
            if not ok:
                problems.append({"obligation": name, "why": "axioms outside the allowed set: %s" % axl})
    return obligations, problems


def check_pins(pid, state):
    """Compare the source hashes of the functions this property's models mirror."""
    cfg = PROPS[pid]
    want = cfg.get("pins", [])
    if not want:
        return [], []
    pinfile = os.path.join(V, "pins.json")
    expected = json.load(open(pinfile)) if os.path.exists(pinfile) else {}
    p = subprocess.run([os.path.join(BIN, "harness"), "tool", "pins", "-"], capture_output=True, text=True, errors="replace", env=dict(os.environ, VERIF_REPO=os.environ.get("VERIF_REPO", "/repo")))
    current = json.loads(p.stdout)
    obligations, problems = [], []
    for fn in want:
        exp, cur = expected.get(fn), current.get(fn)
        ok = exp is not None and exp == cur
        obligations.append({"pin": fn, "ok": ok})
        if not ok:
            problems.append({"obligation": "source-pin " + fn, "why": "the Go source of %s changed since the Lean model mirroring it was written (expected %s, now %s): the hand-written model is no longer tied to it" % (fn, exp, cur)})
    return obligations, problems


def load_known():
    p = os.path.join(V, "known_findings.json")
    if not os.path.exists(p):
        return {}
    return {(k["property"], k["key"]): k for k in json.load(open(p)).get("known", [])}


def run_harness(pid, tier, seed, state):
    cfg = PROPS[pid]
    if not cfg.get("harness"):
        return None, 0, ""
    if os.environ.get("VERIF_STATIC_ONLY"):
        # development aid (benign-change trials): theorems, regenerated obligations and pins only; never used by MANIFEST commands
        return {"stats": {"evaluations": 0, "counters": {}}, "violations": [], "known": [], "distinct_nontrivial": 0, "findings": [], "crashes": 0}, 0, "static-only run: harness skipped\n"
    out = os.path.join(BIN, "run_%s.json" % pid)
    if os.path.exists(out):
        os.remove(out)
    cmd = [os.path.join(BIN, "harness"), "run", "--prop=" + pid, "--tier=" + tier, "--seed=%d" % seed, "--out=" + out]
    p = subprocess.run(cmd, cwd=V, capture_output=True, text=True, errors="replace")
    res = json.load(open(out)) if os.path.exists(out) else None
    text = p.stdout + p.stderr
    if res is not None and cfg.get("race"):
        # the same workload under the race detector
        import prep
        rb = os.path.join(BIN, "harness-race")
        rc, o = prep.sh(["go", "build"] + (["-modfile=" + os.path.join(BIN, "alt.mod")] if prep.REPO != "/repo" else []) + ["-race", "-tags", "verif", "-o", rb, "."], cwd=os.path.join(V, "harness"), env=prep.GOENV)
        if rc != 0:
            text += "\nrace build failed:\n" + o[-2000:]
        else:
            out2 = os.path.join(BIN, "run_%s_race.json" % pid)
            if os.path.exists(out2):
                os.remove(out2)
            p2 = subprocess.run(cmd[:-1] + ["--out=" + out2, "--bin=" + rb, "--workers=4", "--gomaxprocs=8"], cwd=V, capture_output=True, text=True, errors="replace")
            text += p2.stdout + p2.stderr
            if os.path.exists(out2):
                r2 = json.load(open(out2))
                res["violations"] = (res.get("violations") or []) + (r2.get("violations") or [])
                res["known"] = (res.get("known") or []) + (r2.get("known") or [])
                res["stats"]["counters"]["race_run_evaluations"] = r2["stats"]["evaluations"]
                res["stats"]["counters"]["race_run_crashes"] = r2.get("crashes", 0)
    return res, p.returncode, text


def write_replay(pid, name, payload):
    os.makedirs(os.path.join(V, "replays"), exist_ok=True)
    h = hashlib.sha256(json.dumps(payload, sort_keys=True).encode()).hexdigest()[:12]
    path = os.path.join(V, "replays", "%s-%s-%s.json" % (pid, name, h))
    with open(path, "w") as f:
        json.dump(payload, f, indent=1)
    return path


def run_property(pid, tier, seed, state, t0):
    cfg = PROPS[pid]
    level = cfg["level"]
    lines = []
    violations = 0
    if not state.get("ok"):
        # the harness / translator could not even be built from the working tree
        path = write_replay(pid, "build", {"property": pid, "broken": "build of the verification harness against /repo", "errors": state.get("errors")})
        print("VIOLATION property=%s replay=%s no-failing-input-found" % (pid, path))
        print("  " + "\n  ".join(state.get("errors", [""])[0].splitlines()[-15:]))
        write_evidence(pid, tier, seed, level, {"explanation": "build failed", "evaluations": 0, "distinct_nontrivial": 0}, time.time() - t0, 1, cfg)
        return 1
    obligations, problems = audit(pid, state)
    pin_obl, pin_prob = check_pins(pid, state)
    gen_obl, gen_prob = generated_obligations(pid, state)
    problems = problems + pin_prob + gen_prob
    res, hrc, hout = run_harness(pid, tier, seed, state)
    if hout:
        sys_out = [l for l in hout.splitlines() if not l.startswith("WARNING")]
        print("\n".join(sys_out))
    hviol = len(res.get("violations") or []) if res else 0
    real_fail = [v for v in ((res.get("violations") or []) if res else []) if not v.get("disagreement")]
    if res is None and cfg.get("harness"):
        problems.append({"obligation": "harness run", "why": "harness produced no result: " + hout[-800:]})
    violations += hviol
    if problems and not real_fail:
        # a proof obligation / the tie broke and the search found no concrete failing input
        path = write_replay(pid, "obligation", {"property": pid, "no_failing_input_found": True,
                                                 "broken": problems, "searched": (res or {}).get("stats", {}).get("evaluations", 0),
                                                 "replay_cmd": "cd /verif && ./check %s --tier %s" % (pid, tier)})
        print("VIOLATION property=%s replay=%s no-failing-input-found" % (pid, path))
        for pr in problems[:6]:
            print("  broken: %s — %s" % (pr["obligation"], pr["why"][:300]))
        violations += 1
    elif problems:
        for pr in problems[:6]:
            print("  also broken: %s — %s" % (pr["obligation"], pr["why"][:300]))
    # evidence
    st = (res or {}).get("stats", {})
    all_obl = obligations + pin_obl + gen_obl
    cov = {
        "evaluations": st.get("evaluations", 0),
        "distinct_nontrivial": (res or {}).get("distinct_nontrivial", 0),
        "rule": cfg.get("rule", ""),
        "samples": (st.get("samples") or [])[:8] or [o.get("theorem") or o.get("pin") or o.get("obligation") for o in all_obl[:8]],
        "obligations": len(all_obl),
        "discharged": len([o for o in all_obl if o.get("ok")]),
        "checker_cmd": "cd /verif/lean && lake build  (then `lake env lean .lake/audit_*.lean` for #print-axioms style audit); driver: /verif/check %s" % pid,
        "trusted_base": [KERNEL_TB] + cfg.get("trusted_base", []),
        "theorems": obligations,
        "source_pins": pin_obl,
        "generated_obligations": gen_obl,
        "counters": st.get("counters", {}),
        "model_calls": st.get("model_calls", 0),
        "disagreements_checked": st.get("model_calls", 0),
        "traces_validated_against_impl": st.get("model_calls", 0),
        "known_findings_hit": (res or {}).get("known") or [],
        "explanation": cfg.get("explanation", ""),
        "extra": st.get("extra", {}),
        "exhaustive": False,
        "broken_obligations": problems,
        "gen_changed": state.get("gen_changed", []),
    }
    if st.get("max_ratio"):
        cov["max_steps_per_token_ratio"] = st["max_ratio"]
    write_evidence(pid, tier, seed, level, cov, time.time() - t0, violations, cfg)
    print("check %s tier=%s seed=%d: obligations %d/%d, evaluations %d, violations %d, %.1fs" % (
        pid, tier, seed, cov["discharged"], cov["obligations"], cov.get("evaluations", 0), violations, time.time() - t0))
    return 1 if violations else 0


def generated_obligations(pid, state):
    """Obligations over facts regenerated from the Go source (bin/facts.json), decided by lib/facts.py."""
    try:
        import facts
    except ImportError:
        return [], []
    return facts.check(pid, state)


def write_evidence(pid, tier, seed, level, cov, wall, violations, cfg):
    os.makedirs(os.path.join(V, "evidence"), exist_ok=True)
    ev = {"property_id": pid, "tier": tier, "seed": seed, "level": level, "coverage": cov,
          "assumptions": cfg.get("assumptions", []), "wall_s": round(wall, 2), "violations": violations}
    if cov.get("distinct_nontrivial", 0) < 2 and cov.get("evaluations", 0) < 1:
        # proof-only check: the generic counts are not applicable; keep the level's own keys
        cov.pop("evaluations", None); cov.pop("distinct_nontrivial", None); cov.pop("rule", None)
    with open(os.path.join(V, "evidence", pid + ".json"), "w") as f:
        json.dump(ev, f, indent=1)


def replay(pid, path, state):
    rep = json.load(open(path))
    f = rep.get("finding")
    if not f:
        print(json.dumps(rep, indent=1)[:3000])
        print("this replay names a broken obligation; re-run: ./check %s" % pid)
        return 1
    m = re.match(r"seed=(\d+) tier=(\w+) idx=(\d+)", f.get("case", ""))
    if not m:
        print("no case descriptor in replay file"); return 2
    cmd = [os.path.join(BIN, "harness"), "worker", "--prop=" + pid, "--tier=" + m.group(2), "--seed=" + m.group(1), "--only=" + m.group(3)]
    p = subprocess.run(cmd, capture_output=True, text=True, errors="replace")
    bad = 0
    for ln in p.stdout.splitlines():
        if ln.startswith("F\t"):
            bad += 1
            print("REPRODUCED:", ln[2:][:1500])
    if not bad:
        print("not reproduced on the current tree (input: %s)" % f.get("input", "")[:300])
    return 1 if bad else 0
