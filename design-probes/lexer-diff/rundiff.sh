#!/bin/bash
# usage: [H=<harness>] [M=<dcmodel>] rundiff.sh <dir with *.hex>   compares `harness tool lexdump` with `dcmodel` op lex, line by line
H=${H:-/verif/bin/harness}; M=${M:-${VERIF_DCMODEL:-/verif/lean/.lake/build/bin/dcmodel}}; D=$1
tot=0; bad=0
for f in $D/*.hex; do
  n=$(wc -l < $f)
  /usr/bin/time -f "  go %es" $H tool lexdump < $f > $f.go
  sed 's/^/lex /' $f | /usr/bin/time -f "  lean %es" $M > $f.lean
  d=$(paste -d'\n' /dev/null /dev/null >/dev/null; cmp -s $f.go $f.lean && echo 0 || diff $f.go $f.lean | grep -c '^<')
  echo "$(basename $f): $n inputs, $d disagreements"
  tot=$((tot+n)); bad=$((bad+d))
done
echo "TOTAL $tot inputs, $bad disagreements"
