package main

import (
	"bufio"
	"fmt"
	"os"
	"unicode"
)

func b(x bool) int {
	if x {
		return 1
	}
	return 0
}
func main() {
	w := bufio.NewWriter(os.Stdout)
	defer w.Flush()
	for r := rune(0); r <= 0x110000+10; r++ {
		up := unicode.ToUpper(r)
		if up >= 128 || r > unicode.MaxRune {
			up = r // the model is exact only where the image is ASCII
		}
		fmt.Fprintf(w, "%d %d %d %d\n", b(unicode.IsLetter(r)), b(unicode.IsDigit(r)), b(unicode.IsSpace(r)), up)
	}
}
