#!/usr/bin/env python3
"""Differential input generator for the lexer model (throw-away, kept for the record).
usage: gen_inputs.py <outdir> [seed]   writes a_corpus.hex b_exh.hex c_rand.hex d_long.hex (one hex input per line)."""
import sys, os, glob, random, itertools
out = sys.argv[1]; seed = int(sys.argv[2]) if len(sys.argv) > 2 else 1
rng = random.Random(seed)
def hx(b): return b.hex() if b else "-"
ALPHA = [b"'", b'"', b'`', b'\\', b'-', b'/', b'*', b'#', b'$', b'{', b'}', b'.', b'0', b'1', b'9', b'e', b'x', b'b',
         b'_', b'a', b';', b':', b'(', b' ', b'\n', b'\x00', b'\xc3', b'\xa9', b'\xff', b'\xe2', b'\x80', b'\x98',
         b'@', b'=', b'<', b'>', b'|', b'!', b'?']
SNIP = [b'$a$', b'$$', b"x'", b"b'", b"X'", b"B'", b'0x', b'0b', b'0o', b'1e', b'.5', b'--', b'/*', b'*/', b'\\x', b'\\x4', b'\\x41',
        'é'.encode(), '中'.encode(), '−'.encode(), '‘'.encode(), '’'.encode(), '“'.encode(), '”'.encode(),
        '﻿'.encode(), '​'.encode(), ' '.encode(), 'ſelect'.encode(), 'ı'.encode(), '٣'.encode(), b'select', b'SELECT', b'From',
        b'$tag$', '$é$'.encode(), '$中中中$'.encode(), b'@@', b'<=>', b'->', b'::', b'||', b'!=', b'<>', b'1_0', b'1_a', b'.1_a', b'.1e5', b'.1_', b'0x1.8p-3',
        b'1.', b'1..', b'1.a', b'e+', b'E-', b'_', b'{p:T}', b"''", b'""', b'``', b'\r', b'\t', b',', b')', b'[', b']', b'%', b'^', b'+', b'~', b'\x7f',
        b'\xed\xa0\x80', b'\xf0\x9f\x98\x80', b'\xf4\x90\x80\x80', b'\xc0\x80', b'\xe0\x80\x80', b'\xef\xbf\xbd', b'01', b'0', b'p', b'P', b'o', b'7', b'8', b'f', b'F', b'n', b't', b'v', b'r']
# (a) corpus
with open(os.path.join(out, "a_corpus.hex"), "w") as f:
    n = 0
    for p in sorted(glob.glob("/repo/parser/testdata/*/query.sql")):
        f.write(hx(open(p, "rb").read()) + "\n"); n += 1
    print("a_corpus", n)
# (b) exhaustive length <= 3, samples of length 4 and 5
with open(os.path.join(out, "b_exh.hex"), "w") as f:
    n = 0
    for L in range(0, 4):
        for t in itertools.product(ALPHA, repeat=L):
            f.write(hx(b"".join(t)) + "\n"); n += 1
    for L, cnt in ((4, 150000), (5, 150000)):
        for _ in range(cnt):
            f.write(hx(b"".join(rng.choice(ALPHA) for _ in range(L))) + "\n"); n += 1
    print("b_exh", n)
# (c) random strings up to 300 bytes
def rnd(maxlen):
    tgt = rng.randint(0, maxlen); b = b""
    while len(b) < tgt:
        r = rng.random()
        if r < 0.45: b += rng.choice(ALPHA)
        elif r < 0.85: b += rng.choice(SNIP)
        elif r < 0.92: b += bytes([rng.randint(0, 255)])
        else: b += chr(rng.choice([rng.randint(0x80, 0x7ff), rng.randint(0x800, 0xffff), rng.randint(0x10000, 0x10ffff)])).encode("utf-8", "surrogatepass")
    return b[:maxlen]
with open(os.path.join(out, "c_rand.hex"), "w") as f:
    for _ in range(50000): f.write(hx(rnd(300)) + "\n")
    print("c_rand", 50000)
# (d) long inputs
D = []
for n in (30, 31, 32, 33, 5000):
    D.append(b"a." + b"1" * n + b"_x"); D.append(b"a." + b"1" * n + b"e5"); D.append(b"a." + b"1" * n + b"x")
    D.append(b"a." + b"1" * n + "é".encode()); D.append(b"a." + b"1" * (n-1) + b"_" + "é".encode())
D.append(b"a." + b"x" * 5000)
for n in list(range(4080, 4104)) + list(range(8180, 8200)) + [100, 5000, 10000]:
    D.append(b"$tag$" + b"x" * n + b"$tag$ z")       # closing tag straddling the 4096 window
    D.append(b"$t$" + b"y" * n + b"$t$")
    D.append(b"$" + b"t" * n + b"$ body $" + b"t" * n + b"$;")   # long tags
    D.append(b"$t$" + "é".encode() * (n // 2) + b"$t$")
for n in range(2040, 2052):
    D.append(b"$" + "é".encode() * n + b"$")          # tag rune cut at the window edge
    D.append(b"$a" + "é".encode() * n + b"$x$a" + "é".encode() * n + b"$")
D.append(b"$" + "中".encode() * 3 + b"$$" + "中".encode() * 3 + b"$")
D.append(b"$" + "中".encode() * 3 + b"$$" + "中".encode() * 3 + b"$X")
D.append(b"$" + "中".encode() * 3 + b"$$" + "中".encode() * 3 + b"$XYZ select")
M = 1 << 20
D += [b"'" * M, b"/*" * (M // 2), b"$a$ " * (M // 4), b"a." * (M // 2), b"a " * (M // 2), b"1 " * (M // 2), b"x" * M, b"b'" + b"01" * (M // 2) + b"'",
      b"x'" + b"4a" * (M // 2), b"`" * M, b'"' * M, b"\\" * M, b"--" + b"-" * M, b"'" + b"\\x4" * (M // 3), b"{" * M, b"$" * M, b"$a" * (M // 2), b".1" * (M // 2),
      b"1_" * (M // 2), "é".encode() * (M // 2), b"\xff" * M, b"\n" * M, b"0x" * (M // 2), b"@@" * (M // 2), b"*/" * (M // 2), b"/*/" * (M // 3), b"select " * (M // 7)]
with open(os.path.join(out, "d_long.hex"), "w") as f:
    for b in D: f.write(hx(b) + "\n")
    print("d_long", len(D))
