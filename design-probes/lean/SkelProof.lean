import Feas.Skel
namespace Skel

variable {tok : Nat → Nat}

/-- positions never move back -/
theorem exec_mono {c i o j} (h : Exec tok c i o j) : i ≤ j := by
  induction h with
  | next => split <;> omega
  | call h _ => exact h
  | seqN _ _ ih1 ih2 => omega
  | _ => first | exact Nat.le_refl _ | assumption

/-- abstract state (a,S) describes "loop head was at i0, we are at i" -/
def Desc (tok : Nat → Nat) (i0 i : Nat) (st : Bool × TokSet) : Prop :=
  i0 ≤ i ∧ (st.1 = true → i0 < i) ∧ st.2.testBit (tok i) = true

def DescAS (tok : Nat → Nat) (i0 i : Nat) : AS → Prop
  | none => False
  | some st => Desc tok i0 i st

theorem desc_join_l {i0 i x y} (h : DescAS tok i0 i x) : DescAS tok i0 i (join x y) := by
  cases x with
  | none => exact h.elim
  | some p =>
    obtain ⟨a, S⟩ := p
    cases y with
    | none => exact h
    | some q =>
      obtain ⟨b, T⟩ := q
      obtain ⟨h1, h2, h3⟩ := h
      refine ⟨h1, ?_, ?_⟩
      · intro hab; simp at hab; exact h2 hab.1
      · simp [Nat.testBit_or]; left; simpa using h3

theorem desc_join_r {i0 i x y} (h : DescAS tok i0 i y) : DescAS tok i0 i (join x y) := by
  cases y with
  | none => exact h.elim
  | some q =>
    obtain ⟨b, T⟩ := q
    cases x with
    | none => exact h
    | some p =>
      obtain ⟨a, S⟩ := p
      obtain ⟨h1, h2, h3⟩ := h
      refine ⟨h1, ?_, ?_⟩
      · intro hab; simp at hab; exact h2 hab.2
      · simp [Nat.testBit_or]; right; simpa using h3

def pick (r : R) : OK → AS
  | .norm => r.norm | .cont => r.cont | .ret => r.ret | .brk => some (false, ALL)

theorem all_testBit (hK : ∀ i, tok i < K) (i : Nat) : ALL.testBit (tok i) = true := by
  unfold ALL
  rw [Nat.testBit_two_pow_sub_one]
  simpa using hK i

/-- soundness of the abstract analysis -/
theorem ana_sound (hK : ∀ i, tok i < K) {c i o j} (h : Exec tok c i o j) :
    ∀ i0 st, Desc tok i0 i st → o ≠ .brk → DescAS tok i0 j (pick (ana c st) o) := by
  induction h with
  | skip => intro i0 st hd _; simpa [ana, pick, DescAS] using hd
  | @next i =>
    intro i0 st hd _
    obtain ⟨a, S⟩ := st
    obtain ⟨h1, h2, h3⟩ := hd
    simp only [ana, pick, DescAS]
    refine ⟨by split <;> omega, ?_, all_testBit hK _⟩
    intro hadv
    by_cases he : tok i = eofK
    · simp only [he, ite_true]
      simp at hadv
      rcases hadv with ha | hS
      · exact h2 ha
      · simp [he] at h3; simp [h3] at hS
    · simp only [he, ite_false]; omega
  | @assume S i hS =>
    intro i0 st hd _
    obtain ⟨a, S0⟩ := st
    obtain ⟨h1, h2, h3⟩ := hd
    have hb : (S0 &&& S).testBit (tok i) = true := by simp [Nat.testBit_and]; exact ⟨by simpa using h3, hS⟩
    have hne : S0 &&& S ≠ 0 := by intro h0; rw [h0] at hb; simp at hb
    simp only [ana, pick, hne, ite_false, DescAS]
    exact ⟨h1, h2, hb⟩
  | @call adv i i' hle hadv =>
    intro i0 st hd _
    obtain ⟨a, S⟩ := st
    obtain ⟨h1, h2, h3⟩ := hd
    simp only [ana, pick, DescAS]
    refine ⟨by omega, ?_, all_testBit hK _⟩
    intro hflag
    simp at hflag
    rcases hflag with ha | hsub
    · have := h2 ha; omega
    · -- S ⊆ adv, and tok i ∈ S, so the callee advanced
      have hin : adv.testBit (tok i) = true := by
        have hz : (S &&& (ALL ^^^ adv)).testBit (tok i) = false := by rw [hsub]; simp
        simp [Nat.testBit_and, Nat.testBit_xor] at hz
        have hS : S.testBit (tok i) = true := by simpa using h3
        have hA := all_testBit hK i
        have := hz hS
        simp [hA] at this
        exact this
      have := hadv hin; omega
  | @seqN a b i j k o _ _ ih1 ih2 =>
    intro i0 st hd ho
    have h1 := ih1 i0 st hd (by simp)
    simp only [pick] at h1
    simp only [ana]
    cases hn : (ana a st).norm with
    | none => simp [hn, DescAS] at h1
    | some st' =>
      simp only [hn, DescAS] at h1
      have h2 := ih2 i0 st' h1 ho
      cases o with
      | norm => simpa [pick] using h2
      | cont => simp only [pick] at h2 ⊢; exact desc_join_r h2
      | ret => simp only [pick] at h2 ⊢; exact desc_join_r h2
      | brk => exact (ho rfl).elim
  | @seqX a b i j o hne _ ih =>
    intro i0 st hd ho
    have h1 := ih i0 st hd ho
    simp only [ana]
    cases o with
    | norm => exact (hne rfl).elim
    | brk => exact (ho rfl).elim
    | cont =>
      simp only [pick] at h1 ⊢
      cases (ana a st).norm with
      | none => exact h1
      | some st' => exact desc_join_l h1
    | ret =>
      simp only [pick] at h1 ⊢
      cases (ana a st).norm with
      | none => exact h1
      | some st' => exact desc_join_l h1
  | @altL a b i o j _ ih =>
    intro i0 st hd ho
    have h1 := ih i0 st hd ho
    cases o <;> simp only [ana, R.join, pick] at h1 ⊢ <;> first | exact desc_join_l h1 | exact (ho rfl).elim
  | @altR a b i o j _ ih =>
    intro i0 st hd ho
    have h1 := ih i0 st hd ho
    cases o <;> simp only [ana, R.join, pick] at h1 ⊢ <;> first | exact desc_join_r h1 | exact (ho rfl).elim
  | brk => intro _ _ _ ho; exact (ho rfl).elim
  | cont => intro i0 st hd _; simpa [ana, pick, DescAS] using hd
  | ret => intro i0 st hd _; simpa [ana, pick, DescAS] using hd
  | @guardAdv c i j hex hne ih =>
    intro i0 st hd _
    have h1 := ih i0 st hd (by simp)
    have hm := exec_mono hex
    simp only [ana, pick] at h1 ⊢
    cases hn : (ana c st).norm with
    | none => simp [hn, DescAS] at h1
    | some st' =>
      simp only [hn, DescAS, Option.map] at h1 ⊢
      obtain ⟨g1, _, g3⟩ := h1
      exact ⟨g1, fun _ => by have := hd.1; omega, g3⟩
  | guardStuck _ _ => intro _ _ _ ho; exact (ho rfl).elim
  | @guardX c i o j hne _ ih =>
    intro i0 st hd ho
    have h1 := ih i0 st hd ho
    cases o <;> simp only [ana, pick] at h1 ⊢ <;> first | exact h1 | exact (hne rfl).elim | exact (ho rfl).elim

/-- a certified loop body makes progress on every iteration that reaches the back edge -/
theorem loop_progress (hK : ∀ i, tok i < K) {S body i o j}
    (hok : loopOK S body = true) (hcond : S.testBit (tok i) = true)
    (h : Exec tok body i o j) (ho : o = .norm ∨ o = .cont) : i < j := by
  have hd : Desc tok i i (false, S) := ⟨Nat.le_refl _, by simp, hcond⟩
  have hs := ana_sound hK h i (false, S) hd (by rcases ho with rfl | rfl <;> simp)
  unfold loopOK at hok
  simp only [Bool.and_eq_true] at hok
  rcases ho with rfl | rfl
  · simp only [pick] at hs
    cases hn : (ana body (false, S)).norm with
    | none => simp [hn, DescAS] at hs
    | some st => obtain ⟨a, T⟩ := st; simp [hn, advOK] at hok; simp [hn, DescAS, Desc] at hs; exact hs.2.1 hok.1
  · simp only [pick] at hs
    cases hn : (ana body (false, S)).cont with
    | none => simp [hn, DescAS] at hs
    | some st => obtain ⟨a, T⟩ := st; simp [hn, advOK] at hok; simp [hn, DescAS, Desc] at hs; exact hs.2.1 hok.2

#print axioms loop_progress

-- the two loop shapes of the property text, as certificates
def COMMA : Nat := 30
def RPAREN : Nat := 26
def bit (k : Nat) : TokSet := 2 ^ k
/-- `for { elem(); if cur==COMMA { next } else { break } }` — certified -/
example : loopOK ALL (.seq (.call 0) (.alt (.seq (.assume (bit COMMA)) .next) .brk)) = true := by decide +kernel
/-- parseGroupingSets' shape: `for cur∉{RPAREN,EOF} { elem(); if cur==COMMA { next } }` — rejected -/
example : loopOK (ALL ^^^ (bit RPAREN ||| bit eofK))
    (.seq (.call 0) (.alt (.seq (.assume (bit COMMA)) .next) (.assume (ALL ^^^ bit COMMA)))) = false := by decide +kernel
end Skel
