import Feas
open Feas

def hexVal (c : UInt8) : UInt8 :=
  if c ≥ 48 && c ≤ 57 then c - 48 else if c ≥ 97 && c ≤ 102 then c - 87 else 0

def unhex (s : String) : ByteArray := Id.run do
  let bs := s.toUTF8
  let mut out := ByteArray.empty
  let mut i := 0
  while i + 1 < bs.size do
    out := out.push (hexVal bs[i]! * 16 + hexVal bs[i+1]!)
    i := i + 2
  return out

partial def loop (h : IO.FS.Stream) (out : IO.FS.Stream) : IO Unit := do
  let line ← h.getLine
  if line.isEmpty then return ()
  let inp := unhex line.trimAscii.toString
  let s0 : St := { input := inp, idx := 0, ch := 0, eof := false, line := 1, col := 0 }
  let s1 := skipIdent (readChar s0)
  out.putStrLn s!"{s1.idx} {s1.line} {s1.col}"
  loop h out

def main : IO Unit := do
  loop (← IO.getStdin) (← IO.getStdout)
