import Feas.Pratt
namespace Pratt

def headPrec : List Tok → Nat
  | .op o :: _ => o.prec
  | _ => 0

theorem infixLoop_stop (fuel p : Nat) (l : A) (rest : List Tok) (h : headPrec rest ≤ p) :
    infixLoop (fuel+1) p l rest = some (l, rest) := by
  unfold infixLoop
  cases rest with
  | nil => rfl
  | cons t ts =>
    cases t <;> simp_all [headPrec]
    omega

/-- more fuel never changes a successful result (all three functions at once) -/
theorem mono (f : Nat) :
    (∀ p ts r, parseExpr f p ts = some r → parseExpr (f+1) p ts = some r) ∧
    (∀ p l ts r, infixLoop f p l ts = some r → infixLoop (f+1) p l ts = some r) ∧
    (∀ ts r, parsePrefix f ts = some r → parsePrefix (f+1) ts = some r) := by
  induction f with
  | zero => refine ⟨?_, ?_, ?_⟩ <;> intros <;> simp_all [parseExpr, infixLoop, parsePrefix]
  | succ f ih =>
    obtain ⟨ihE, ihL, ihP⟩ := ih
    refine ⟨?_, ?_, ?_⟩
    · intro p ts r h
      unfold parseExpr at h ⊢
      cases hp : parsePrefix f ts with
      | none => simp [hp] at h
      | some lr =>
        obtain ⟨l, rest⟩ := lr
        simp only [hp] at h
        simp only [ihP _ _ hp]
        exact ihL _ _ _ _ h
    · intro p l ts r h
      unfold infixLoop at h ⊢
      match ts, h with
      | .op o :: rest, h =>
        simp only at h ⊢
        by_cases hlt : p < o.prec
        · simp only [hlt, ite_true] at h ⊢
          cases he : parseExpr f o.prec rest with
          | none => simp [he] at h
          | some rr =>
            obtain ⟨r', rest'⟩ := rr
            simp only [he] at h
            simp only [ihE _ _ _ he]
            exact ihL _ _ _ _ h
        · simp only [hlt, ite_false] at h ⊢; exact h
      | [], h => simpa using h
      | .id _ :: _, h => simpa using h
      | .num _ :: _, h => simpa using h
      | .lp :: _, h => simpa using h
      | .rp :: _, h => simpa using h
      | .not :: _, h => simpa using h
    · intro ts r h
      unfold parsePrefix at h ⊢
      match ts, h with
      | [], h => cases h
      | .id _ :: _, h => exact h
      | .num _ :: _, h => exact h
      | .rp :: _, h => simp [isMinus] at h
      | .not :: rest, h =>
        simp only at h ⊢
        cases he : parseExpr f (notThreshold rest) rest with
        | none => simp [he] at h
        | some rr => simp only [he] at h; simp only [ihE _ _ _ he]; exact h
      | .lp :: rest, h =>
        simp only at h ⊢
        cases he : parseExpr f 0 rest with
        | none => simp [he] at h
        | some rr => simp only [he] at h; simp only [ihE _ _ _ he]; exact h
      | .op o :: rest, h =>
        simp only at h ⊢
        by_cases hm : isMinus (.op o)
        · simp only [hm, ite_true] at h ⊢
          cases he : parseExpr f UNARY rest with
          | none => simp [he] at h
          | some rr => simp only [he] at h; simp only [ihE _ _ _ he]; exact h
        · simp [hm] at h

theorem mono_loop {f p l ts r} (k : Nat) (h : infixLoop f p l ts = some r) : infixLoop (f+k) p l ts = some r := by
  induction k with
  | zero => exact h
  | succ k ih => exact (mono (f+k)).2.1 _ _ _ _ ih

theorem mono_expr {f p ts r} (k : Nat) (h : parseExpr f p ts = some r) : parseExpr (f+k) p ts = some r := by
  induction k with
  | zero => exact h
  | succ k ih => exact (mono (f+k)).1 _ _ _ ih

def cost : E → Nat
  | .id _ | .num _ => 1
  | .neg e | .not e | .par e => cost e + 2
  | .bin _ l r => cost l + cost r + 1

end Pratt

namespace Pratt

theorem top_pos (e : E) : 0 < top e := by
  cases e with
  | bin o _ _ => cases o <;> simp [top, Op.prec]
  | _ => simp [top]

theorem loop_fuel_pos {f p l ts r} (h : infixLoop f p l ts = some r) : ∃ f', f = f' + 1 := by
  cases f with
  | zero => simp [infixLoop] at h
  | succ f' => exact ⟨f', rfl⟩

theorem notThreshold_append (e : E) (rest : List Tok) :
    notThreshold (render e ++ rest) = notThreshold (render e) := by
  cases e <;> simp [render, notThreshold]
  rename_i o l r
  cases hl : render l with
  | nil => cases l <;> simp [render] at hl
  | cons t ts => cases t <;> simp [notThreshold]

theorem parse_render (e : E) : WellPar e →
    ∀ (p : Nat) (rest : List Tok) (res : A × List Tok) (f : Nat),
      p < top e → headPrec rest ≤ openMin e →
      infixLoop f p (erase e) rest = some res →
      parseExpr (f + cost e) p (render e ++ rest) = some res := by
  induction e with
  | id s =>
    intro _ p rest res f _ _ h
    obtain ⟨f', rfl⟩ := loop_fuel_pos h
    simp only [cost, render, erase] at *
    unfold parseExpr
    simp only [parsePrefix, List.cons_append, List.nil_append]
    exact h
  | num n =>
    intro _ p rest res f _ _ h
    obtain ⟨f', rfl⟩ := loop_fuel_pos h
    simp only [cost, render, erase] at *
    unfold parseExpr
    simp only [parsePrefix, List.cons_append, List.nil_append]
    exact h
  | par e ih =>
    intro hw p rest res f _ _ h
    obtain ⟨f', rfl⟩ := loop_fuel_pos h
    simp only [WellPar] at hw
    have hinner := ih hw 0 (.rp :: rest) (erase e, .rp :: rest) (f'+1) (top_pos e)
      (by simp [headPrec]) (infixLoop_stop _ _ _ _ (by simp [headPrec]))
    simp only [cost, render, erase, List.cons_append, List.append_assoc, List.nil_append]
    show parseExpr ((f' + 1 + cost e + 1) + 1) p _ = _
    unfold parseExpr
    simp only [parsePrefix, hinner]
    exact mono_loop (cost e + 1) h
  | neg e ih =>
    intro hw p rest res f _ ho h
    obtain ⟨f', rfl⟩ := loop_fuel_pos h
    simp only [WellPar] at hw
    simp only [openMin] at ho
    have hinner := ih hw.1 UNARY rest (erase e, rest) (f'+1) hw.2
      (by omega) (infixLoop_stop _ _ _ _ (by omega))
    simp only [cost, render, erase, List.cons_append]
    show parseExpr ((f' + 1 + cost e + 1) + 1) p _ = _
    unfold parseExpr
    simp only [parsePrefix, isMinus, ite_true, hinner]
    exact mono_loop (cost e + 1) h
  | not e ih =>
    intro hw p rest res f _ ho h
    obtain ⟨f', rfl⟩ := loop_fuel_pos h
    simp only [WellPar] at hw
    simp only [openMin] at ho
    have hinner := ih hw.1 (notThreshold (render e)) rest (erase e, rest) (f'+1) hw.2
      (by omega) (infixLoop_stop _ _ _ _ (by omega))
    simp only [cost, render, erase, List.cons_append]
    show parseExpr ((f' + 1 + cost e + 1) + 1) p _ = _
    unfold parseExpr
    simp only [parsePrefix, notThreshold_append, hinner]
    exact mono_loop (cost e + 1) h
  | bin o l r ihl ihr =>
    intro hw p rest res f hp ho h
    obtain ⟨f', rfl⟩ := loop_fuel_pos h
    simp only [WellPar] at hw
    obtain ⟨hwl, hwr, hol, htl, htr⟩ := hw
    simp only [openMin] at ho
    simp only [top] at hp
    -- right operand: parsed at o.prec, loop stops on rest
    have hR := ihr hwr o.prec rest (erase r, rest) (f'+1) htr (by omega)
      (infixLoop_stop _ _ _ _ (by omega))
    -- the loop at level p, with erase l on the left, sees `op o`
    have hL : infixLoop (f' + 1 + cost r + 1) p (erase l) (.op o :: (render r ++ rest)) = some res := by
      unfold infixLoop
      simp only [hp, ite_true, hR]
      exact mono_loop (cost r) h
    have := ihl hwl p (.op o :: (render r ++ rest)) res (f' + 1 + cost r + 1) (by omega)
      (by simp [headPrec]; exact hol) hL
    simp only [cost, render, erase, List.append_assoc, List.cons_append]
    have e1 : f' + 1 + (cost l + cost r + 1) = f' + 1 + cost r + 1 + cost l := by omega
    rw [e1]; exact this

/-- C08 core: every well-parenthesised tree re-parses to itself. -/
theorem pratt_roundtrip (e : E) (hw : WellPar e) : parse (render e) = some (erase e) := by
  have h := parse_render e hw 0 [] (erase e, []) 1 (top_pos e) (by simp [headPrec])
    (infixLoop_stop _ _ _ _ (by simp [headPrec]))
  simp only [List.append_nil] at h
  have hc : ∀ e : E, cost e ≤ 2 * (render e).length := by
    intro e; induction e <;> simp [cost, render] <;> omega
  unfold parse
  have : 2 * (render e).length + 2 = (1 + cost e) + (2 * (render e).length + 1 - cost e) := by
    have := hc e; omega
  rw [this, mono_expr _ h]

#print axioms pratt_roundtrip
end Pratt
