namespace Pratt

/-- binary operator classes by precedence level (numbers as in expression.go's iota block) -/
inductive Op | or | and | cmp (n : Nat) | cat | add (n : Nat) | mul (n : Nat)
deriving DecidableEq, Repr

def Op.prec : Op → Nat
  | .or => 3 | .and => 4 | .cmp _ => 6 | .cat => 7 | .add _ => 8 | .mul _ => 9

def NOT_PREC := 5
def UNARY := 10

inductive Tok | id (s : Nat) | num (n : Nat) | lp | rp | not | op (o : Op)
deriving DecidableEq, Repr
-- minus is `op (.add 1)`; prefix position decides unary.

/-- parsed AST as the Go parser builds it (flags kept) -/
inductive A
  | id (s : Nat) (par : Bool) | num (n : Nat) (par : Bool)
  | neg (e : A) | not (e : A) | bin (o : Op) (l r : A) (par : Bool)
deriving DecidableEq, Repr

def A.markPar : A → A
  | .id s _ => .id s true | .num n _ => .num n true | .bin o l r _ => .bin o l r true | e => e

def precOf : Tok → Nat
  | .op o => o.prec | .not => NOT_PREC | _ => 0   -- lp in infix position is out of fragment

def isMinus : Tok → Bool | .op (.add 1) => true | _ => false

def notThreshold : List Tok → Nat
  | .lp :: _ => UNARY
  | _ => NOT_PREC

mutual
/-- parseExpression(prec) -/
def parseExpr (fuel : Nat) (prec : Nat) (ts : List Tok) : Option (A × List Tok) :=
  match fuel with
  | 0 => none
  | fuel+1 =>
    match parsePrefix fuel ts with
    | none => none
    | some (l, rest) => infixLoop fuel prec l rest
/-- the `for precedence < precedenceForCurrent()` loop -/
def infixLoop (fuel : Nat) (prec : Nat) (left : A) (ts : List Tok) : Option (A × List Tok) :=
  match fuel with
  | 0 => none
  | fuel+1 =>
    match ts with
    | .op o :: rest =>
      if prec < o.prec then
        match parseExpr fuel o.prec rest with
        | none => none
        | some (r, rest') => infixLoop fuel prec (.bin o left r false) rest'
      else some (left, ts)
    | _ => some (left, ts)   -- infix NOT etc.: out of fragment, treated as stop
def parsePrefix (fuel : Nat) (ts : List Tok) : Option (A × List Tok) :=
  match fuel with
  | 0 => none
  | fuel+1 =>
    match ts with
    | .id s :: rest => some (.id s false, rest)
    | .num n :: rest => some (.num n false, rest)
    | .not :: rest =>
      match parseExpr fuel (notThreshold rest) rest with
      | none => none
      | some (e, rest') => some (.not e, rest')
    | .lp :: rest =>
      match parseExpr fuel 0 rest with
      | some (e, .rp :: rest') => some (e.markPar, rest')
      | _ => none
    | t :: rest =>
      if isMinus t then
        match parseExpr fuel UNARY rest with
        | none => none
        | some (e, rest') => some (.neg e, rest')
      else none
    | [] => none
end

/-- source trees with explicit parentheses -/
inductive E
  | id (s : Nat) | num (n : Nat) | neg (e : E) | not (e : E) | bin (o : Op) (l r : E) | par (e : E)
deriving Repr

def render : E → List Tok
  | .id s => [.id s] | .num n => [.num n]
  | .neg e => .op (.add 1) :: render e
  | .not e => .not :: render e
  | .bin o l r => render l ++ .op o :: render r
  | .par e => .lp :: render e ++ [.rp]

def erase : E → A
  | .id s => .id s false | .num n => .num n false
  | .neg e => .neg (erase e) | .not e => .not (erase e)
  | .bin o l r => .bin o (erase l) (erase r) false
  | .par e => (erase e).markPar

/-- top-level binding: the precedence at which the expression is "closed" when parsed as an operand -/
def top : E → Nat
  | .bin o _ _ => o.prec | _ => 100

/-- min threshold of the loops still open at the end of the rendering -/
def openMin : E → Nat
  | .id _ | .num _ | .par _ => 100
  | .neg e => min UNARY (openMin e)
  | .not e => min (notThreshold (render e)) (openMin e)
  | .bin o _ r => min o.prec (openMin r)


def WellPar : E → Prop
  | .id _ | .num _ => True
  | .par e => WellPar e
  | .neg e => WellPar e ∧ UNARY < top e
  | .not e => WellPar e ∧ notThreshold (render e) < top e
  | .bin o l r => WellPar l ∧ WellPar r ∧ o.prec ≤ openMin l ∧ o.prec ≤ top l ∧ o.prec < top r

-- sanity: examples through the executable parser
def parse (ts : List Tok) : Option A :=
  match parseExpr (2 * ts.length + 2) 0 ts with
  | some (a, []) => some a
  | _ => none

def a := E.id 0
def b := E.id 1
def c := E.id 2
#eval parse (render (.bin (.add 0) (.not (.par a)) b)) == some (erase (.bin (.add 0) (.not (.par a)) b))  -- NOT (a) + b
#eval parse (render (.not (.bin (.add 0) a b))) == some (erase (.not (.bin (.add 0) a b)))              -- NOT a + b
#eval parse (render (.bin (.mul 0) (.bin (.add 0) a b) c)) == some (erase (.bin (.mul 0) (.bin (.add 0) a b) c)) -- false: needs parens
#eval parse (render (.bin (.cmp 0) (.bin (.add 0) a (.not b)) c))  -- a + NOT b = c : absorbed
end Pratt
