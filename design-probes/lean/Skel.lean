namespace Skel

abbrev TokSet := Nat            -- bitmask over token kinds
def K : Nat := 192               -- number of token kinds (regenerated in the real thing)
def ALL : TokSet := 2 ^ K - 1
def eofK : Nat := 1

inductive Cmd
  | skip | next
  | assume (S : TokSet)          -- a branch whose condition implies cur ∈ S
  | call (adv : TokSet)          -- callee contract: never moves back; advances when cur ∈ adv
  | seq (a b : Cmd) | alt (a b : Cmd)
  | brk | cont | ret
  | posGuard (body : Cmd)        -- start := pos; body; if pos == start { break }

inductive OK | norm | brk | cont | ret
deriving DecidableEq

/-- concrete semantics over the token index; `tok i` is the kind of the i-th token -/
inductive Exec (tok : Nat → Nat) : Cmd → Nat → OK → Nat → Prop
  | skip {i} : Exec tok .skip i .norm i
  | next {i} : Exec tok .next i .norm (if tok i = eofK then i else i + 1)
  | assume {S i} : S.testBit (tok i) = true → Exec tok (.assume S) i .norm i
  | call {adv i i'} : i ≤ i' → (adv.testBit (tok i) = true → i < i') → Exec tok (.call adv) i .norm i'
  | seqN {a b i j k o} : Exec tok a i .norm j → Exec tok b j o k → Exec tok (.seq a b) i o k
  | seqX {a b i j o} : o ≠ .norm → Exec tok a i o j → Exec tok (.seq a b) i o j
  | altL {a b i o j} : Exec tok a i o j → Exec tok (.alt a b) i o j
  | altR {a b i o j} : Exec tok b i o j → Exec tok (.alt a b) i o j
  | brk {i} : Exec tok .brk i .brk i
  | cont {i} : Exec tok .cont i .cont i
  | ret {i} : Exec tok .ret i .ret i
  | guardAdv {c i j} : Exec tok c i .norm j → j ≠ i → Exec tok (.posGuard c) i .norm j
  | guardStuck {c i} : Exec tok c i .norm i → Exec tok (.posGuard c) i .brk i
  | guardX {c i o j} : o ≠ .norm → Exec tok c i o j → Exec tok (.posGuard c) i o j

abbrev AS := Option (Bool × TokSet)

def join : AS → AS → AS
  | none, x => x
  | x, none => x
  | some (a, S), some (b, T) => some (a && b, S ||| T)

structure R where
  norm : AS
  cont : AS
  ret  : AS

def R.empty : R := ⟨none, none, none⟩
def R.join (x y : R) : R := ⟨Skel.join x.norm y.norm, Skel.join x.cont y.cont, Skel.join x.ret y.ret⟩

def ana : Cmd → (Bool × TokSet) → R
  | .skip, st => ⟨some st, none, none⟩
  | .next, (a, S) => ⟨some (a || !(S.testBit eofK), ALL), none, none⟩
  | .assume T, (a, S) => ⟨if S &&& T = 0 then none else some (a, S &&& T), none, none⟩
  | .call adv, (a, S) => ⟨some (a || (S &&& (ALL ^^^ adv) == 0), ALL), none, none⟩
  | .seq x y, st =>
    let rx := ana x st
    match rx.norm with
    | none => ⟨none, rx.cont, rx.ret⟩
    | some st' => let ry := ana y st'; ⟨ry.norm, join rx.cont ry.cont, join rx.ret ry.ret⟩
  | .alt x y, st => (ana x st).join (ana y st)
  | .brk, _ => R.empty
  | .cont, st => ⟨none, some st, none⟩
  | .ret, st => ⟨none, none, some st⟩
  | .posGuard c, st =>
    let r := ana c st
    ⟨r.norm.map (fun p => (true, p.2)), r.cont, r.ret⟩

def advOK : AS → Bool
  | none => true
  | some (a, _) => a

/-- certificate check for `for cond { body }` where cond implies cur ∈ S -/
def loopOK (S : TokSet) (body : Cmd) : Bool :=
  let r := ana body (false, S)
  advOK r.norm && advOK r.cont

end Skel
