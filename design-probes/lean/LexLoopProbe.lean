namespace Feas

structure St where
  input : ByteArray
  idx : Nat        -- bytes consumed (including current char)
  ch : UInt32
  eof : Bool
  line : Nat
  col : Nat
deriving Inhabited

def St.measure (s : St) : Nat := (s.input.size - s.idx) + (if s.eof then 0 else 1)

/-- simplified: single-byte runes only -/
def readChar (s : St) : St :=
  if s.eof then { s with ch := 0 }
  else if h : s.idx < s.input.size then
    let b := s.input[s.idx]
    let (line, col) := if s.ch == 10 then (s.line + 1, 1) else (s.line, s.col + 1)
    { s with idx := s.idx + 1, ch := b.toUInt32, line := line, col := col }
  else { s with ch := 0, eof := true }

theorem readChar_measure (s : St) (h : s.eof = false) : (readChar s).measure < s.measure := by
  unfold readChar St.measure
  simp [h]
  split
  · simp; omega
  · simp

def isIdent (c : UInt32) : Bool := (c ≥ 97 && c ≤ 122) || c == 95

def skipIdent (s : St) : St :=
  if h : isIdent s.ch && !s.eof then skipIdent (readChar s) else s
termination_by s.measure
decreasing_by
  apply readChar_measure
  simp at h; exact h.2

theorem skipIdent_idx_le (s : St) : s.idx ≤ (skipIdent s).idx := by
  fun_induction skipIdent s with
  | case1 s h ih =>
    have : s.idx ≤ (readChar s).idx := by
      unfold readChar; split <;> try split
      all_goals simp
    omega
  | case2 s h => exact Nat.le_refl _

end Feas
