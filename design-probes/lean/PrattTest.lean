import Feas.Pratt
open Pratt

def wellParB : E → Bool
  | .id _ | .num _ => true
  | .par e => wellParB e
  | .neg e => wellParB e && decide (UNARY < top e)
  | .not e => wellParB e && decide (notThreshold (render e) < top e)
  | .bin o l r => wellParB l && wellParB r && decide (o.prec ≤ openMin l) && decide (o.prec ≤ top l) && decide (o.prec < top r)

def ops : List Op := [.or, .and, .cmp 0, .cat, .add 0, .add 1, .mul 0]

/-- all trees with exactly n constructors (atoms: one ident) -/
partial def trees : Nat → List E
  | 0 => []
  | 1 => [.id 0]
  | n+1 =>
    let un := (trees n).flatMap fun e => [E.neg e, E.not e, E.par e]
    let bins := (List.range n).flatMap fun i =>
      if i = 0 ∨ n - i = 0 then [] else
      (trees i).flatMap fun l => (trees (n - i)).flatMap fun r => ops.map fun o => E.bin o l r
    un ++ bins

def checkUpTo (n : Nat) : Nat × Nat × Nat × List E := Id.run do
  let mut total := 0
  let mut wp := 0
  let mut bad : List E := []
  let mut agree := 0
  for k in List.range (n+1) do
    for e in trees k do
      total := total + 1
      let ok := parse (render e) == some (erase e)
      if wellParB e then wp := wp + 1
      if ok == wellParB e then agree := agree + 1 else if bad.length < 5 then bad := e :: bad
  return (total, wp, agree, bad)

#eval checkUpTo 8
