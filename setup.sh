#!/bin/sh
# Build the framework from files on disk only (offline): harness against /repo, regenerated Lean tables, lake build.
set -e
cd /verif
python3 -c "
import sys; sys.path.insert(0,'/verif/lib')
import prep, json
st = prep.prepare()
print(json.dumps({k: st[k] for k in st if k != 'lake_tail'}, indent=1))
sys.exit(0 if st.get('ok') and st.get('lake_rc', 1) == 0 else 1)
"
