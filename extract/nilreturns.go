package main

// Nil-return inventory (C03): every literal `return nil` in package parser inside a function whose result (at that
// position) is a pointer to an ast struct or an ast interface, with a syntactic classification of whether an error
// was recorded before it:
//   dominated-by-error  the return is in the body of an `if` whose condition can only hold after a failed
//                       `p.expect(…)` / `p.expectPeek(…)` (any bool function of the package all of whose `return false`
//                       are directly preceded by `p.errors = append(p.errors, …)`), or in the else branch of the
//                       positive form, or an earlier statement of an enclosing block is `p.errors = append(p.errors, …)`
//                       (or a call of a function whose top-level statements contain one);
//   propagates-nil      the return is in the body of an `if` whose condition can only hold if `x == nil` for a local x
//                       ALL of whose assignments in the function are results of method calls on the parser: the callee
//                       returned nil and is responsible (its own `return nil`s are in this inventory);
//   silent              everything else — reviewed by hand in DC/Spec/AssumedNilReturns.lean.
// TRUSTED: this reading of the syntax (earlier direct statements of enclosing blocks dominate the return; the
// condition analysis is the obvious one over !, &&, ||). Closures are skipped (listed in counts).

import (
	"fmt"
	"go/ast"
	"go/token"
	"go/types"
	"os"
	"path/filepath"
	"sort"
	"strings"

	"golang.org/x/tools/go/packages"
)

type NilReturn struct {
	Pos    string `json:"pos"`
	Func   string `json:"func"`
	Result string `json:"result"`
	Class  string `json:"class"`
	Ctx    string `json:"ctx"` // innermost enclosing if / case, part of the key
	Why    string `json:"why,omitempty"`
}

func (n NilReturn) key() string { return n.Func + " | " + n.Ctx }

func nrIsASTResult(t types.Type) bool {
	if p, ok := t.(*types.Pointer); ok {
		return isASTType(p)
	}
	if n, ok := t.(*types.Named); ok && n.Obj().Pkg() != nil && n.Obj().Pkg().Path() == modPath+"/ast" {
		_, isIface := n.Underlying().(*types.Interface)
		return isIface
	}
	return false
}

type nrCtx struct {
	info          *types.Info
	failRecorders map[types.Object]bool // bool functions whose `return false` always follows an error append
	recorders     map[types.Object]bool // functions whose top-level statements append to p.errors
}

func nrIsErrAppend(s ast.Stmt) bool {
	as, ok := s.(*ast.AssignStmt)
	if !ok || len(as.Lhs) != 1 || len(as.Rhs) != 1 {
		return false
	}
	l, ok := as.Lhs[0].(*ast.SelectorExpr)
	if !ok || l.Sel.Name != "errors" {
		return false
	}
	c, ok := as.Rhs[0].(*ast.CallExpr)
	if !ok || len(c.Args) < 2 {
		return false
	}
	id, ok := c.Fun.(*ast.Ident)
	if !ok || id.Name != "append" {
		return false
	}
	a0, ok := c.Args[0].(*ast.SelectorExpr)
	return ok && a0.Sel.Name == "errors" && exprString(a0.X) == exprString(l.X)
}

func (c *nrCtx) calleeObj(e ast.Expr) types.Object {
	call, ok := psStrip(e).(*ast.CallExpr)
	if !ok {
		return nil
	}
	switch f := call.Fun.(type) {
	case *ast.Ident:
		return c.info.ObjectOf(f)
	case *ast.SelectorExpr:
		return c.info.ObjectOf(f.Sel)
	}
	return nil
}

func (c *nrCtx) isRecordStmt(s ast.Stmt) bool {
	if nrIsErrAppend(s) {
		return true
	}
	if es, ok := s.(*ast.ExprStmt); ok {
		if o := c.calleeObj(es.X); o != nil && c.recorders[o] {
			return true
		}
	}
	return false
}

// holdsOnlyAfter: can cond be true (want=true) / false (want=false) only if pred holds for some failing atom?
// pred(e, sense) says: the atom e having truth value `sense` implies the event.
func nrImplies(cond ast.Expr, want bool, pred func(e ast.Expr, sense bool) bool) bool {
	cond = psStrip(cond)
	if pred(cond, want) {
		return true
	}
	switch x := cond.(type) {
	case *ast.UnaryExpr:
		if x.Op == token.NOT {
			return nrImplies(x.X, !want, pred)
		}
	case *ast.BinaryExpr:
		switch x.Op {
		case token.LAND:
			if want { // both true: either suffices
				return nrImplies(x.X, true, pred) || nrImplies(x.Y, true, pred)
			}
			return nrImplies(x.X, false, pred) && nrImplies(x.Y, false, pred)
		case token.LOR:
			if want { // one of them true: both must imply
				return nrImplies(x.X, true, pred) && nrImplies(x.Y, true, pred)
			}
			return nrImplies(x.X, false, pred) || nrImplies(x.Y, false, pred)
		}
	}
	return false
}

func extractNilReturns(pkgs []*packages.Package, facts *Facts, leanDir string) {
	p := findPkg(pkgs, "parser")
	if p == nil {
		fmt.Fprintln(os.Stderr, "extract: nil returns: package parser not loaded")
		os.Exit(2)
	}
	fset = p.Fset
	c := &nrCtx{info: p.TypesInfo, failRecorders: map[types.Object]bool{}, recorders: map[types.Object]bool{}}
	var decls []*ast.FuncDecl
	files := append([]*ast.File{}, p.Syntax...)
	sort.Slice(files, func(i, j int) bool {
		return p.Fset.Position(files[i].Pos()).Filename < p.Fset.Position(files[j].Pos()).Filename
	})
	for _, f := range files {
		if isVerifFile(p.Fset.Position(f.Pos()).Filename) {
			continue
		}
		for _, d := range f.Decls {
			if fd, ok := d.(*ast.FuncDecl); ok && fd.Body != nil {
				decls = append(decls, fd)
			}
		}
	}
	// helper classification
	for _, fd := range decls {
		obj := p.TypesInfo.Defs[fd.Name]
		for _, s := range fd.Body.List {
			if nrIsErrAppend(s) {
				c.recorders[obj] = true
			}
		}
		res := fd.Type.Results
		if res == nil || len(res.List) != 1 || len(res.List[0].Names) > 1 || exprString(res.List[0].Type) != "bool" {
			continue
		}
		okAll, any := true, false
		var walk func(list []ast.Stmt)
		walk = func(list []ast.Stmt) {
			for i, s := range list {
				if r, ok := s.(*ast.ReturnStmt); ok && len(r.Results) == 1 {
					if id, ok := r.Results[0].(*ast.Ident); ok && id.Name == "false" {
						any = true
						if i == 0 || !nrIsErrAppend(list[i-1]) {
							okAll = false
						}
					} else if id, ok := r.Results[0].(*ast.Ident); !ok || id.Name != "true" {
						okAll = false // a computed result may be false without an error
					}
				}
				ast.Inspect(s, func(n ast.Node) bool {
					switch b := n.(type) {
					case *ast.FuncLit:
						return false
					case *ast.BlockStmt:
						walk(b.List)
						return false
					case *ast.CaseClause:
						walk(b.Body)
						return false
					}
					return true
				})
			}
		}
		walk(fd.Body.List)
		if okAll && any {
			c.failRecorders[obj] = true
		}
	}
	var out []NilReturn
	closures := 0
	for _, fd := range decls {
		res := fd.Type.Results
		if res == nil {
			continue
		}
		// flatten result types
		var rts []types.Type
		for _, f := range res.List {
			n := len(f.Names)
			if n == 0 {
				n = 1
			}
			for i := 0; i < n; i++ {
				rts = append(rts, p.TypesInfo.TypeOf(f.Type))
			}
		}
		hasAST := false
		for _, t := range rts {
			if nrIsASTResult(t) {
				hasAST = true
			}
		}
		if !hasAST {
			continue
		}
		name := fd.Name.Name
		if fd.Recv != nil && len(fd.Recv.List) == 1 {
			name = strings.TrimPrefix(exprString(fd.Recv.List[0].Type), "*") + "." + name
		}
		fn := "parser." + name
		// all assignments of each local in this function come from parser method calls?
		fromParse := map[types.Object]bool{}
		tainted := map[types.Object]bool{}
		note := func(lhs ast.Expr, rhs ast.Expr) {
			id, ok := lhs.(*ast.Ident)
			if !ok || id.Name == "_" {
				return
			}
			o := p.TypesInfo.ObjectOf(id)
			if o == nil {
				return
			}
			good := false
			if rhs != nil {
				if call, ok := psStrip(rhs).(*ast.CallExpr); ok {
					if se, ok := call.Fun.(*ast.SelectorExpr); ok {
						if sel := p.TypesInfo.Selections[se]; sel != nil && sel.Kind() == types.MethodVal {
							if named, ok := derefNamed(sel.Recv()); ok && named.Obj().Name() == "Parser" {
								good = true
							}
						}
					}
				}
			}
			if good {
				fromParse[o] = true
			} else {
				tainted[o] = true
			}
		}
		ast.Inspect(fd.Body, func(n ast.Node) bool {
			switch x := n.(type) {
			case *ast.AssignStmt:
				if len(x.Lhs) == len(x.Rhs) {
					for i := range x.Lhs {
						note(x.Lhs[i], x.Rhs[i])
					}
				} else {
					for _, l := range x.Lhs {
						note(l, nil)
					}
				}
			case *ast.ValueSpec:
				for i, nm := range x.Names {
					if i < len(x.Values) {
						note(nm, x.Values[i])
					} else {
						note(nm, nil) // `var x T`: nil without any callee
					}
				}
			case *ast.RangeStmt:
				if x.Key != nil {
					note(x.Key, nil)
				}
				if x.Value != nil {
					note(x.Value, nil)
				}
			}
			return true
		})
		isParseNil := func(e ast.Expr, sense bool) bool {
			b, ok := e.(*ast.BinaryExpr)
			if !ok {
				return false
			}
			if !((b.Op == token.EQL && sense) || (b.Op == token.NEQ && !sense)) {
				return false
			}
			x, y := psStrip(b.X), psStrip(b.Y)
			if id, ok := x.(*ast.Ident); ok && id.Name == "nil" {
				x, y = y, x
			}
			if id, ok := y.(*ast.Ident); !ok || id.Name != "nil" {
				return false
			}
			id, ok := x.(*ast.Ident)
			if !ok {
				return false
			}
			o := p.TypesInfo.ObjectOf(id)
			return fromParse[o] && !tainted[o]
		}
		isFailedExpect := func(e ast.Expr, sense bool) bool {
			if sense {
				return false
			}
			o := c.calleeObj(e)
			return o != nil && c.failRecorders[o]
		}
		var path []ast.Node
		ast.Inspect(fd.Body, func(n ast.Node) bool {
			if n == nil {
				path = path[:len(path)-1]
				return true
			}
			if _, ok := n.(*ast.FuncLit); ok {
				closures++
				path = append(path, n)
				return true
			}
			path = append(path, n)
			r, ok := n.(*ast.ReturnStmt)
			if !ok || len(r.Results) != len(rts) {
				return true
			}
			for _, a := range path {
				if _, inLit := a.(*ast.FuncLit); inLit {
					return true
				}
			}
			for i, e := range r.Results {
				id, isId := psStrip(e).(*ast.Ident)
				if !isId || id.Name != "nil" || !nrIsASTResult(rts[i]) {
					continue
				}
				nr := NilReturn{Pos: pos(r.Pos()), Func: fn, Result: types.TypeString(rts[i], func(q *types.Package) string { return q.Name() }), Class: "silent", Ctx: "<top>"}
				// innermost context for the key
				for k := len(path) - 2; k >= 0; k-- {
					if is, ok := path[k].(*ast.IfStmt); ok {
						if path[k+1] == ast.Node(is.Body) {
							nr.Ctx = "if " + normExpr(c.info, is.Cond)
						} else {
							nr.Ctx = "else of if " + normExpr(c.info, is.Cond)
						}
						break
					}
					if cc, ok := path[k].(*ast.CaseClause); ok {
						var cs []string
						for _, ce := range cc.List {
							cs = append(cs, normExpr(c.info, ce))
						}
						if cc.List == nil {
							nr.Ctx = "default"
						} else {
							nr.Ctx = "case " + strings.Join(cs, ", ")
						}
						break
					}
				}
				propagates := ""
				for k := 0; k+1 < len(path) && nr.Class == "silent"; k++ {
					child := path[k+1]
					var list []ast.Stmt
					switch b := path[k].(type) {
					case *ast.BlockStmt:
						list = b.List
					case *ast.CaseClause:
						list = b.Body
					case *ast.CommClause:
						list = b.Body
					case *ast.IfStmt:
						if child == ast.Node(b.Body) {
							if nrImplies(b.Cond, true, isFailedExpect) {
								nr.Class, nr.Why = "dominated-by-error", "inside `if "+exprString(b.Cond)+"` "+pos(b.Pos())
							} else if nrImplies(b.Cond, true, isParseNil) {
								propagates = "inside `if " + exprString(b.Cond) + "` " + pos(b.Pos())
							}
						} else if b.Else != nil && child == ast.Node(b.Else) {
							if nrImplies(b.Cond, false, isFailedExpect) {
								nr.Class, nr.Why = "dominated-by-error", "else branch of `if "+exprString(b.Cond)+"` "+pos(b.Pos())
							} else if nrImplies(b.Cond, false, isParseNil) {
								propagates = "else branch of `if " + exprString(b.Cond) + "` " + pos(b.Pos())
							}
						}
					}
					for _, s := range list {
						if s.Pos() >= child.Pos() {
							break
						}
						if c.isRecordStmt(s) {
							nr.Class, nr.Why = "dominated-by-error", "after the error recorded at "+pos(s.Pos())
						}
					}
				}
				if nr.Class == "silent" && propagates != "" {
					nr.Class, nr.Why = "propagates-nil", propagates
				}
				out = append(out, nr)
			}
			return true
		})
	}
	facts.Tables["nil_returns"] = out
	for _, n := range out {
		facts.Counts["nil_return_"+n.Class]++
	}
	facts.Counts["nil_return_closures_skipped"] = closures
	if leanDir == "" {
		return
	}
	var sb strings.Builder
	sb.WriteString("-- GENERATED by /verif/extract (nilreturns.go) from the Go source in /repo. Do not edit.\n")
	sb.WriteString("namespace DC.Gen.NilReturns\n\n")
	sb.WriteString("structure NilRet where\n  pos : String\n  func : String\n  result : String\n  cls : String\n  ctx : String\n  why : String\n\n")
	sb.WriteString("/-- function name + innermost enclosing condition: stable under edits elsewhere -/\ndef NilRet.key (r : NilRet) : String := r.func ++ \" | \" ++ r.ctx\n\n")
	sb.WriteString("/-- every literal `return nil` of package parser in a function returning a pointer to an ast struct or an ast interface -/\ndef returns : List NilRet := [")
	for i, n := range out {
		if i > 0 {
			sb.WriteString(",")
		}
		fmt.Fprintf(&sb, "\n  ⟨%s, %s, %s, %s, %s, %s⟩", lstr(n.Pos), lstr(n.Func), lstr(n.Result), lstr(n.Class), lstr(n.Ctx), lstr(n.Why))
	}
	sb.WriteString("]\n\ndef silent : List NilRet := returns.filter (fun r => r.cls == \"silent\")\n\n")
	var frs []string
	for o := range c.failRecorders {
		frs = append(frs, o.Name())
	}
	sort.Strings(frs)
	sb.WriteString(strList("failRecorders", "bool functions of package parser whose every `return false` directly follows `p.errors = append(p.errors, …)`", frs))
	sb.WriteString("end DC.Gen.NilReturns\n")
	_ = os.MkdirAll(leanDir, 0o755)
	_ = os.WriteFile(filepath.Join(leanDir, "NilReturns.lean"), []byte(sb.String()), 0o644)
}

func derefNamed(t types.Type) (*types.Named, bool) {
	if p, ok := t.(*types.Pointer); ok {
		t = p.Elem()
	}
	n, ok := t.(*types.Named)
	return n, ok
}
