// Command extract re-reads /repo with full type information and writes facts about the source as
// Lean data (DC/Gen/*.lean) and JSON. It contains no judgement about the properties: it lists
// syntactic / type facts with file:line; the obligations over them are decided in Lean / by the driver.
package main

import (
	"encoding/json"
	"flag"
	"fmt"
	"go/ast"
	"go/token"
	"go/types"
	"os"
	"path/filepath"
	"sort"
	"strings"

	"golang.org/x/tools/go/packages"
)

const modPath = "github.com/sqlc-dev/doubleclick"

var libPkgs = []string{"token", "lexer", "parser", "ast", "internal/explain"}

type Site struct {
	Pos  string `json:"pos"`
	Func string `json:"func"`
	What string `json:"what"`
	Kind string `json:"kind,omitempty"`
}

type Facts struct {
	GlobalWrites []Site            `json:"global_writes"` // writes to package-level variables outside init/var initialisers
	GlobalVars   []Site            `json:"global_vars"`   // package-level variables of the library packages
	ASTWrites    []Site            `json:"ast_writes"`    // writes through pointers to ast types in internal/explain and ast
	LocalCopies  []Site            `json:"local_copy_writes"`
	AliasAppends []Site            `json:"alias_appends"` // appends whose base may alias a slice stored in the AST (internal/explain, ast)
	MapRanges    []Site            `json:"map_ranges"`
	ReaderUse    []Site            `json:"reader_use"`    // every use of Lexer.reader
	ParserFields []string          `json:"parser_fields"` // fields of parser.Parser
	LexerFields  []string          `json:"lexer_fields"`
	GoStmts      []Site            `json:"go_stmts"`
	ErrSites     []Site            `json:"err_sites"` // error constructors that print a position
	PosUses      []Site            `json:"pos_uses"`
	Counts       map[string]int    `json:"counts"`
	Tables       map[string]any    `json:"tables"`
	Hashes       map[string]string `json:"hashes,omitempty"`
}

var fset *token.FileSet
var repo string

func pos(p token.Pos) string {
	ps := fset.Position(p)
	rel, err := filepath.Rel(repo, ps.Filename)
	if err != nil {
		rel = ps.Filename
	}
	return fmt.Sprintf("%s:%d", rel, ps.Line)
}

func main() {
	repoFlag := flag.String("repo", "/repo", "repository root")
	leanDir := flag.String("lean", "", "directory for generated Lean files")
	jsonOut := flag.String("json", "", "facts JSON output")
	flag.Parse()
	repo = *repoFlag
	cfg := &packages.Config{Mode: packages.NeedName | packages.NeedFiles | packages.NeedSyntax | packages.NeedTypes | packages.NeedTypesInfo | packages.NeedImports | packages.NeedDeps,
		Dir: repo, Env: append(os.Environ(), "GOFLAGS=-mod=mod", "GOPROXY=off")}
	var pats []string
	for _, p := range libPkgs {
		pats = append(pats, "./"+p)
	}
	pkgs, err := packages.Load(cfg, pats...)
	if err != nil {
		fmt.Fprintln(os.Stderr, "extract: load:", err)
		os.Exit(2)
	}
	if packages.PrintErrors(pkgs) > 0 {
		os.Exit(2)
	}
	facts := &Facts{Counts: map[string]int{}, Tables: map[string]any{}}
	for _, p := range pkgs {
		fset = p.Fset
		short := strings.TrimPrefix(p.PkgPath, modPath+"/")
		scanPackage(p, short, facts)
	}
	extractTables(pkgs, facts)
	extractAliasAppends(pkgs, facts)
	extractLoops(pkgs, facts, *leanDir) // loops.go, skelana.go (C02: progress skeletons, contracts, loop inventory)
	extractSites(pkgs, facts, *leanDir) // panicsites.go, nilreturns.go (C01/C03 inventories)
	sortSites(facts)
	if *jsonOut != "" {
		b, _ := json.MarshalIndent(facts, "", " ")
		if err := os.WriteFile(*jsonOut, b, 0o644); err != nil {
			fmt.Fprintln(os.Stderr, err)
			os.Exit(2)
		}
	}
	if *leanDir != "" {
		writeLean(*leanDir, facts)
		extractTables2(pkgs, repo, *leanDir, facts)
		extractPosUses(pkgs, facts, *leanDir)
		extractNameSites(pkgs, facts, *leanDir)
		extractMarshalers(pkgs, facts, *leanDir) // marshalers.go (C03: custom marshallers, float-capable fields)
	}
}

func sortSites(f *Facts) {
	for _, s := range []*[]Site{&f.AliasAppends, &f.GlobalWrites, &f.GlobalVars, &f.ASTWrites, &f.LocalCopies, &f.MapRanges, &f.ReaderUse, &f.GoStmts, &f.ErrSites, &f.PosUses} {
		sort.SliceStable(*s, func(i, j int) bool { return (*s)[i].Pos < (*s)[j].Pos })
	}
}

func isVerifFile(name string) bool {
	b := filepath.Base(name)
	return strings.HasPrefix(b, "verif_") || strings.HasSuffix(b, "_test.go")
}

// rootIdent strips selectors, indexing, stars and parens down to the base identifier.
func rootIdent(e ast.Expr) (*ast.Ident, bool /*through pointer deref or index*/) {
	through := false
	for {
		switch x := e.(type) {
		case *ast.Ident:
			return x, through
		case *ast.SelectorExpr:
			e = x.X
		case *ast.IndexExpr:
			through = true
			e = x.X
		case *ast.StarExpr:
			through = true
			e = x.X
		case *ast.ParenExpr:
			e = x.X
		case *ast.SliceExpr:
			through = true
			e = x.X
		default:
			return nil, through
		}
	}
}

func isASTType(t types.Type) bool {
	for {
		switch x := t.(type) {
		case *types.Pointer:
			t = x.Elem()
			continue
		case *types.Named:
			if x.Obj().Pkg() != nil && x.Obj().Pkg().Path() == modPath+"/ast" {
				_, isStruct := x.Underlying().(*types.Struct)
				return isStruct
			}
			return false
		}
		return false
	}
}

func scanPackage(p *packages.Package, short string, facts *Facts) {
	info := p.TypesInfo
	scope := p.Types.Scope()
	// package-level variables
	for _, name := range scope.Names() {
		if v, ok := scope.Lookup(name).(*types.Var); ok {
			if isVerifFile(fset.Position(v.Pos()).Filename) {
				continue
			}
			facts.GlobalVars = append(facts.GlobalVars, Site{Pos: pos(v.Pos()), What: short + "." + name, Kind: v.Type().String()})
		}
	}
	for _, file := range p.Syntax {
		fname := fset.Position(file.Pos()).Filename
		if isVerifFile(fname) {
			continue
		}
		for _, d := range file.Decls {
			fd, ok := d.(*ast.FuncDecl)
			if !ok || fd.Body == nil {
				continue
			}
			fn := short + "." + fd.Name.Name
			isInit := fd.Name.Name == "init" && fd.Recv == nil
			// local pointer variables that only ever point to objects created in this function
			fresh := freshPointers(fd, info)
			freshSl := freshSlices(fd, info)
			freshFA := freshFieldAssigns(fd, info)
			recordWrite := func(lhs ast.Expr, at token.Pos) {
				id, through := rootIdent(lhs)
				if id == nil {
					return
				}
				obj := info.ObjectOf(id)
				v, ok := obj.(*types.Var)
				if !ok {
					return
				}
				if v.Parent() == scope { // package-level variable
					if !isInit {
						facts.GlobalWrites = append(facts.GlobalWrites, Site{Pos: pos(at), Func: fn, What: exprString(lhs)})
					}
					return
				}
				if short != "internal/explain" && short != "ast" {
					return
				}
				if _, plain := lhs.(*ast.Ident); plain {
					return // assignment to a local variable itself
				}
				// element write `x[i] = v` into a slice of AST nodes that is a parameter or may alias one (not provably fresh)
				if ix, ok := lhs.(*ast.IndexExpr); ok {
					if bid, ok := ix.X.(*ast.Ident); ok {
						if bv, ok := info.ObjectOf(bid).(*types.Var); ok {
							if t := info.TypeOf(ix.X); t != nil && sliceOfAST(t) && !freshSl[bv] {
								facts.ASTWrites = append(facts.ASTWrites, Site{Pos: pos(at), Func: fn, What: exprString(lhs), Kind: "element-of-shared-slice"})
								return
							}
						}
					}
				}
				// element write `copy.f[i] = v` through a slice FIELD of a local copy of an AST struct: the copy shares the
				// field's backing array with the original unless a fresh slice was assigned to copy.f on every path before
				if ix, ok := lhs.(*ast.IndexExpr); ok {
					if sel, ok := ix.X.(*ast.SelectorExpr); ok {
						if t := info.TypeOf(ix.X); t != nil && sliceOfAST(t) && !dominatedByFreshAssign(freshFA, obj, exprString(sel), at) {
							facts.ASTWrites = append(facts.ASTWrites, Site{Pos: pos(at), Func: fn, What: exprString(lhs), Kind: "element-of-slice-field-not-freshly-assigned"})
							return
						}
					}
				}
				// a field / element write: does the written object belong to an ast struct?
				baseT := baseStructType(info, lhs)
				if baseT == nil || !isASTType(baseT) {
					return
				}
				// local non-pointer struct variable (a private copy) and no deref/index on the way
				_, isPtr := v.Type().Underlying().(*types.Pointer)
				if (!isPtr || fresh[v]) && !v.IsField() && !isParamOrRecv(fd, info, v) {
					_ = through
					facts.LocalCopies = append(facts.LocalCopies, Site{Pos: pos(at), Func: fn, What: exprString(lhs)})
					return
				}
				facts.ASTWrites = append(facts.ASTWrites, Site{Pos: pos(at), Func: fn, What: exprString(lhs)})
			}
			ast.Inspect(fd.Body, func(n ast.Node) bool {
				switch x := n.(type) {
				case *ast.AssignStmt:
					if x.Tok == token.DEFINE {
						// := only defines locals; but `a.b, c := …` is impossible, so nothing to record
						return true
					}
					for _, l := range x.Lhs {
						recordWrite(l, x.Pos())
					}
				case *ast.IncDecStmt:
					recordWrite(x.X, x.Pos())
				case *ast.RangeStmt:
					if t := info.TypeOf(x.X); t != nil {
						if _, ok := t.Underlying().(*types.Map); ok {
							facts.MapRanges = append(facts.MapRanges, Site{Pos: pos(x.Pos()), Func: fn, What: exprString(x.X)})
						}
					}
					if x.Tok == token.ASSIGN {
						if x.Key != nil {
							recordWrite(x.Key, x.Pos())
						}
						if x.Value != nil {
							recordWrite(x.Value, x.Pos())
						}
					}
				case *ast.GoStmt:
					facts.GoStmts = append(facts.GoStmts, Site{Pos: pos(x.Pos()), Func: fn, What: "go statement"})
				case *ast.SelectorExpr:
					// uses of Lexer.reader
					if sel := info.Selections[x]; sel != nil && sel.Kind() == types.FieldVal {
						if f, ok := sel.Obj().(*types.Var); ok && f.Name() == "reader" && short == "lexer" {
							facts.ReaderUse = append(facts.ReaderUse, Site{Pos: pos(x.Pos()), Func: fn, What: "l.reader", Kind: "use"})
						}
						// position reads
						if f, ok := sel.Obj().(*types.Var); ok {
							switch f.Name() {
							case "Offset", "Line", "Column":
								if named, ok := sel.Recv().(*types.Named); ok && named.Obj().Name() == "Position" || isPositionPtr(sel.Recv()) {
									facts.PosUses = append(facts.PosUses, Site{Pos: pos(x.Pos()), Func: fn, What: exprString(x), Kind: f.Name()})
								}
							}
						}
					}
				case *ast.CallExpr:
					// method calls on l.reader: l.reader.M(...)
					if se, ok := x.Fun.(*ast.SelectorExpr); ok {
						if inner, ok := se.X.(*ast.SelectorExpr); ok {
							if sel := info.Selections[inner]; sel != nil {
								if f, ok := sel.Obj().(*types.Var); ok && f.Name() == "reader" && short == "lexer" {
									facts.ReaderUse = append(facts.ReaderUse, Site{Pos: pos(x.Pos()), Func: fn, What: se.Sel.Name, Kind: "call"})
								}
							}
						}
						// error constructors printing a position
						if id, ok := se.X.(*ast.Ident); ok && id.Name == "fmt" && se.Sel.Name == "Errorf" && len(x.Args) > 0 {
							if bl, ok := x.Args[0].(*ast.BasicLit); ok && strings.Contains(bl.Value, "line %d") {
								var args []string
								for _, a := range x.Args[1:] {
									args = append(args, exprString(a))
								}
								facts.ErrSites = append(facts.ErrSites, Site{Pos: pos(x.Pos()), Func: fn, What: bl.Value, Kind: strings.Join(args, " | ")})
							}
						}
					}
				}
				return true
			})
		}
		// struct fields
		ast.Inspect(file, func(n ast.Node) bool {
			ts, ok := n.(*ast.TypeSpec)
			if !ok {
				return true
			}
			st, ok := ts.Type.(*ast.StructType)
			if !ok {
				return true
			}
			var names []string
			for _, f := range st.Fields.List {
				for _, nm := range f.Names {
					names = append(names, nm.Name+" "+exprString(f.Type))
				}
			}
			if short == "parser" && ts.Name.Name == "Parser" {
				facts.ParserFields = names
			}
			if short == "lexer" && ts.Name.Name == "Lexer" {
				facts.LexerFields = names
			}
			return true
		})
	}
}

func isPositionPtr(t types.Type) bool {
	if p, ok := t.(*types.Pointer); ok {
		if n, ok := p.Elem().(*types.Named); ok {
			return n.Obj().Name() == "Position"
		}
	}
	return false
}

func isParamOrRecv(fd *ast.FuncDecl, info *types.Info, v *types.Var) bool {
	check := func(fl *ast.FieldList) bool {
		if fl == nil {
			return false
		}
		for _, f := range fl.List {
			for _, n := range f.Names {
				if info.ObjectOf(n) == v {
					return true
				}
			}
		}
		return false
	}
	return check(fd.Recv) || check(fd.Type.Params)
}

// baseStructType returns the type of the object whose field/element is written by lhs.
func baseStructType(info *types.Info, lhs ast.Expr) types.Type {
	switch x := lhs.(type) {
	case *ast.SelectorExpr:
		return info.TypeOf(x.X)
	case *ast.IndexExpr:
		// element write: x.X is a slice/map; attribute it to the struct holding that slice if any
		if se, ok := x.X.(*ast.SelectorExpr); ok {
			return info.TypeOf(se.X)
		}
		return nil
	case *ast.StarExpr:
		return info.TypeOf(x.X)
	case *ast.ParenExpr:
		return baseStructType(info, x.X)
	}
	return nil
}

func exprString(e ast.Expr) string {
	return types.ExprString(e)
}

// freshPointers returns the local pointer variables of fd all of whose assignments are
// `&T{…}`, `&localValue`, `new(T)` or nil: they can only point to objects created in fd.
func freshPointers(fd *ast.FuncDecl, info *types.Info) map[*types.Var]bool {
	state := map[*types.Var]int{} // 1 fresh so far, 2 tainted
	classify := func(rhs ast.Expr) bool {
		switch r := rhs.(type) {
		case *ast.UnaryExpr:
			if r.Op != token.AND {
				return false
			}
			switch x := r.X.(type) {
			case *ast.CompositeLit:
				return true
			case *ast.Ident:
				if v, ok := info.ObjectOf(x).(*types.Var); ok && !v.IsField() && !isParamOrRecv(fd, info, v) {
					_, isPtr := v.Type().Underlying().(*types.Pointer)
					return !isPtr
				}
			}
			return false
		case *ast.CallExpr:
			if id, ok := r.Fun.(*ast.Ident); ok && id.Name == "new" {
				return true
			}
			return false
		case *ast.Ident:
			return r.Name == "nil"
		}
		return false
	}
	note := func(lhs ast.Expr, rhs ast.Expr) {
		id, ok := lhs.(*ast.Ident)
		if !ok {
			return
		}
		v, ok := info.ObjectOf(id).(*types.Var)
		if !ok {
			return
		}
		if _, isPtr := v.Type().Underlying().(*types.Pointer); !isPtr {
			return
		}
		if rhs != nil && classify(rhs) {
			if state[v] == 0 {
				state[v] = 1
			}
		} else {
			state[v] = 2
		}
	}
	ast.Inspect(fd.Body, func(n ast.Node) bool {
		switch x := n.(type) {
		case *ast.AssignStmt:
			if len(x.Lhs) == len(x.Rhs) {
				for i := range x.Lhs {
					note(x.Lhs[i], x.Rhs[i])
				}
			} else {
				for _, l := range x.Lhs {
					note(l, nil)
				}
			}
		case *ast.ValueSpec:
			for i, nm := range x.Names {
				if i < len(x.Values) {
					note(nm, x.Values[i])
				} else if len(x.Values) == 0 {
					// `var p *T` (nil)
					if v, ok := info.ObjectOf(nm).(*types.Var); ok {
						if _, isPtr := v.Type().Underlying().(*types.Pointer); isPtr && state[v] == 0 {
							state[v] = 1
						}
					}
				}
			}
		case *ast.RangeStmt:
			if x.Key != nil {
				note(x.Key, nil)
			}
			if x.Value != nil {
				note(x.Value, nil)
			}
		}
		return true
	})
	out := map[*types.Var]bool{}
	for v, st := range state {
		if st == 1 {
			out[v] = true
		}
	}
	return out
}

// normExpr prints e with every local variable (parameter, receiver, result, local) replaced by `$k:T`, k the order of
// first occurrence inside e and T its type: keys built from it do not change when a developer renames a local.
func normExpr(info *types.Info, e ast.Expr) string {
	if info == nil {
		return types.ExprString(e)
	}
	idx := map[types.Object]int{}
	var ids []*ast.Ident
	var old []string
	ast.Inspect(e, func(n ast.Node) bool {
		id, ok := n.(*ast.Ident)
		if !ok {
			return true
		}
		obj := info.Uses[id]
		if obj == nil {
			obj = info.Defs[id]
		}
		v, ok := obj.(*types.Var)
		if !ok || v.IsField() || v.Pkg() == nil || v.Parent() == nil || v.Parent() == v.Pkg().Scope() || v.Parent() == types.Universe {
			return true
		}
		k, seen := idx[obj]
		if !seen {
			k = len(idx)
			idx[obj] = k
		}
		ids = append(ids, id)
		old = append(old, id.Name)
		id.Name = fmt.Sprintf("$%d:%s", k, types.TypeString(v.Type(), func(q *types.Package) string { return q.Name() }))
		return true
	})
	s := types.ExprString(e)
	for i, id := range ids {
		id.Name = old[i]
	}
	return s
}
