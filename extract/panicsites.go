package main

// Panic-site inventory (C01/C03): every index expression x[i] on a slice / array / string, every slice expression
// x[a:b] and every type assertion x.(T) without comma-ok (outside type switches) in the packages lexer, parser,
// internal/explain and ast, each with a guard classification, plus for the guarded ones a linear-arithmetic
// obligation  hypotheses → 0 ≤ i < len(x)  that Lean re-proves with `omega`.
//
// TRUSTED: that each emitted hypothesis is a fact that really holds whenever the site is executed. The hypotheses
// are read off the syntax conservatively:
//   * sources: the condition of an enclosing `if` (body: condition, else: negation), of an enclosing `for`, the own
//     and the negated earlier cases of an enclosing `switch`, the left operand of an enclosing `&&` / `||`, an earlier
//     statement of an enclosing block of the form `if c { …; return/break/continue/goto/panic }` (negation of c), an
//     earlier `v := e` / `v = e` with linear e, `x := make([]T, n)`, `x := []T{…}`, `for i := range x` (0 ≤ i < len x),
//     `for i := c; …; i++` with i not assigned in the body (c ≤ i) and the decreasing twin. Sub-conditions that are not
//     linear comparisons are weakened to True (polarity-aware), never guessed.
//   * a hypothesis is used only if none of its terms (a variable v, a field path r.f.g, len of either) can have
//     changed between the evaluation of the guard and the site: no assignment / ++ / range-assignment to the
//     variable, to a prefix of the path or — through ANY root — to one of the fields of the path, and no call whose
//     may-modify set (panicsites_mod.go, least fixed point over the call graph) contains one of these fields, (a)
//     textually between guard and site and (b) anywhere in a loop that contains the site but not the guard. Variables
//     whose address is taken or that are assigned inside a closure are never used. Guards outside a closure are not
//     used for sites inside it.
//   * assumptions not checked here: no `goto` into the guarded region (the library has no goto), no `unsafe`, no
//     reflection writes, no goroutines in the library (DC.Props.C10.no_shared_writes: goStmts = []), the standard library
//     modifies library data only through the callback methods listed in psStdHookNames, integer arithmetic on lengths
//     and positions does not overflow int, slice expressions are checked against len (not cap), embedded-field
//     promotion does not alias two different field objects.
// NOT TRUSTED: the little Fourier-Motzkin procedure (panicsites_lin.go) that decides which hypotheses suffice; its
// verdicts are re-proved by omega (accepted ones) or reviewed by hand (rejected ones, class `unguarded`).

import (
	"fmt"
	"go/ast"
	"go/constant"
	"go/token"
	"go/types"
	"os"
	"path/filepath"
	"sort"
	"strings"

	"golang.org/x/tools/go/packages"
)

var psPkgs = []string{"lexer", "parser", "internal/explain", "ast"}

type PanicSite struct {
	ID     int    `json:"id"`
	Pos    string `json:"pos"`
	Func   string `json:"func"`
	Kind   string `json:"kind"` // index | slice | assert
	Expr   string `json:"expr"`
	NExpr  string `json:"nexpr"` // Expr with locals replaced by `$k:T` (rename-invariant), used in the key
	Class  string `json:"class"`
	Guard  string `json:"guard,omitempty"`  // where the guard was found (human readable)
	Lean   string `json:"lean,omitempty"`   // obligation statement
	Legend string `json:"legend,omitempty"` // Lean variable = Go expression
	Wit    string `json:"witness,omitempty"` // ∃ statement: the hypotheses are satisfiable
	WitVal string `json:"witness_values,omitempty"`
	Lit    string `json:"lit,omitempty"`    // literal-type sites: the LiteralType constants
	Assert string `json:"assert,omitempty"` // asserted type
}

type LitSite struct {
	Pos   string `json:"pos"`
	Func  string `json:"func"`
	Type  string `json:"type"`  // LiteralType constant of the construction, "?" if not a constant
	Value string `json:"value"` // static type of the Value expression, "<none>" if absent
	What  string `json:"what"`  // "construct" | "write"
}

type psEvent struct {
	pos    token.Pos
	lit    *ast.FuncLit
	assign bool
	root   types.Object // assign with a plain path: root variable
	path   []*types.Var
	plain  bool
	mods   *psModSet
	stmt   ast.Stmt // the assigning statement
	delta  *int64   // x++ / x-- / x += c / x -= c / x = x ± c: the constant added
}

type psHyp struct {
	f      *psForm
	kind   string // if | else | for | case | early | assign | and | or | range | counted
	gpos   token.Pos
	ranges [][2]token.Pos
	desc   string
	// counted/range: variables that must not be assigned inside this loop body
	frozenIn ast.Node
	frozen   []types.Object
}

type psFunc struct {
	info    *types.Info
	mi      *psModInfo
	fn      string
	decl    ast.Node
	events  []psEvent
	escaped map[types.Object]bool
	closure map[types.Object]bool
	atoms   map[string]*psAtom
	pkgScope *types.Scope
	defs    map[types.Object]int64 // local integer variables defined by `v := const` / `var v int`
}

func psStrip(e ast.Expr) ast.Expr {
	for {
		p, ok := e.(*ast.ParenExpr)
		if !ok {
			return e
		}
		e = p.X
	}
}

// psPath: e as variable followed by field selections (implicit pointer dereferences allowed).
func (fc *psFunc) psPath(e ast.Expr) (root types.Object, fields []*types.Var, ok bool) {
	e = psStrip(e)
	switch x := e.(type) {
	case *ast.Ident:
		if v, isVar := fc.info.ObjectOf(x).(*types.Var); isVar {
			return v, nil, true
		}
	case *ast.SelectorExpr:
		sel := fc.info.Selections[x]
		if sel == nil {
			if v, isVar := fc.info.ObjectOf(x.Sel).(*types.Var); isVar { // pkg.Var
				return v, nil, true
			}
			return nil, nil, false
		}
		if sel.Kind() != types.FieldVal {
			return nil, nil, false
		}
		r, fs, ok := fc.psPath(x.X)
		if !ok {
			return nil, nil, false
		}
		return r, append(append([]*types.Var{}, fs...), sel.Obj().(*types.Var)), true
	}
	return nil, nil, false
}

func (fc *psFunc) atom(e ast.Expr, isLen bool) *psAtom {
	root, fields, ok := fc.psPath(e)
	if !ok {
		return nil
	}
	key := fmt.Sprintf("%s@%d", root.Name(), root.Pos())
	for _, f := range fields {
		key += "." + f.Name()
	}
	disp := exprString(psStrip(e))
	if isLen {
		key += "#len"
		disp = "len(" + disp + ")"
	}
	if a, ok := fc.atoms[key]; ok {
		return a
	}
	a := &psAtom{key: key, disp: disp, isLen: isLen, root: root, fields: fields}
	if !isLen {
		if b, ok := fc.info.TypeOf(e).Underlying().(*types.Basic); ok {
			if b.Info()&types.IsUnsigned != 0 {
				a.nonneg = true
			}
			switch b.Kind() {
			case types.Uint8:
				a.max = 255
			case types.Uint16:
				a.max = 65535
			}
		}
	}
	fc.atoms[key] = a
	return a
}

func psIsInt(t types.Type) bool {
	if t == nil {
		return false
	}
	b, ok := t.Underlying().(*types.Basic)
	return ok && b.Info()&types.IsInteger != 0
}

func psIsString(t types.Type) bool {
	if t == nil {
		return false
	}
	b, ok := t.Underlying().(*types.Basic)
	return ok && b.Info()&types.IsString != 0
}

// psArrayLen: length if t is an array or pointer to array.
func psArrayLen(t types.Type) (int64, bool) {
	if t == nil {
		return 0, false
	}
	u := t.Underlying()
	if p, ok := u.(*types.Pointer); ok {
		u = p.Elem().Underlying()
	}
	if a, ok := u.(*types.Array); ok {
		return a.Len(), true
	}
	return 0, false
}

// lenOf: the linear form of len(x).
func (fc *psFunc) lenOf(x ast.Expr) (psLin, bool) {
	t := fc.info.TypeOf(x)
	if n, ok := psArrayLen(t); ok {
		return psConst(n), true
	}
	if tv, ok := fc.info.Types[x]; ok && tv.Value != nil && tv.Value.Kind() == constant.String {
		return psConst(int64(len(constant.StringVal(tv.Value)))), true
	}
	if t == nil {
		return psLin{}, false
	}
	switch t.Underlying().(type) {
	case *types.Slice:
	case *types.Basic:
		if !psIsString(t) {
			return psLin{}, false
		}
	default:
		return psLin{}, false
	}
	if cl, ok := psStrip(x).(*ast.CompositeLit); ok {
		for _, el := range cl.Elts {
			if _, kv := el.(*ast.KeyValueExpr); kv {
				return psLin{}, false
			}
		}
		return psConst(int64(len(cl.Elts))), true
	}
	a := fc.atom(x, true)
	if a == nil {
		return psLin{}, false
	}
	return psVar(a), true
}

// lin: linear form of an integer expression.
func (fc *psFunc) lin(e ast.Expr) (psLin, bool) {
	e = psStrip(e)
	if tv, ok := fc.info.Types[e]; ok && tv.Value != nil {
		if tv.Value.Kind() == constant.Int {
			if v, exact := constant.Int64Val(tv.Value); exact && v > -(1<<40) && v < 1<<40 {
				return psConst(v), true
			}
		}
		return psLin{}, false
	}
	if !psIsInt(fc.info.TypeOf(e)) {
		return psLin{}, false
	}
	switch x := e.(type) {
	case *ast.BinaryExpr:
		l, ok1 := fc.lin(x.X)
		r, ok2 := fc.lin(x.Y)
		if !ok1 || !ok2 {
			return psLin{}, false
		}
		// unsigned subtraction wraps; only signed arithmetic is linear
		if b, ok := fc.info.TypeOf(e).Underlying().(*types.Basic); ok && b.Info()&types.IsUnsigned != 0 {
			return psLin{}, false
		}
		switch x.Op {
		case token.ADD:
			return l.add(r, 1), true
		case token.SUB:
			return l.add(r, -1), true
		case token.MUL:
			if l.isConst() {
				return r.scale(l.k), true
			}
			if r.isConst() {
				return l.scale(r.k), true
			}
		}
		return psLin{}, false
	case *ast.UnaryExpr:
		if x.Op == token.SUB {
			if l, ok := fc.lin(x.X); ok {
				return l.scale(-1), true
			}
		}
		if x.Op == token.ADD {
			return fc.lin(x.X)
		}
		return psLin{}, false
	case *ast.CallExpr:
		if id, ok := x.Fun.(*ast.Ident); ok && len(x.Args) == 1 {
			if b, isB := fc.info.ObjectOf(id).(*types.Builtin); isB && b.Name() == "len" {
				return fc.lenOf(x.Args[0])
			}
		}
		// widening conversion to int / int64
		if tv, ok := fc.info.Types[x.Fun]; ok && tv.IsType() && len(x.Args) == 1 {
			if tb, ok := tv.Type.Underlying().(*types.Basic); ok && (tb.Kind() == types.Int || tb.Kind() == types.Int64) {
				if sb, ok := fc.info.TypeOf(x.Args[0]).Underlying().(*types.Basic); ok {
					switch sb.Kind() {
					case types.Int, types.Int8, types.Int16, types.Int32, types.Int64, types.Uint8, types.Uint16, types.Uint32:
						return fc.lin(x.Args[0])
					}
				}
			}
		}
		return psLin{}, false
	case *ast.Ident, *ast.SelectorExpr:
		if a := fc.atom(e, false); a != nil {
			return psVar(a), true
		}
	}
	return psLin{}, false
}

// form: a formula implied by cond (pos) or by its negation (!pos).
func (fc *psFunc) form(cond ast.Expr, pos bool) *psForm {
	cond = psStrip(cond)
	switch x := cond.(type) {
	case *ast.UnaryExpr:
		if x.Op == token.NOT {
			return fc.form(x.X, !pos)
		}
	case *ast.BinaryExpr:
		switch x.Op {
		case token.LAND:
			if pos {
				return psAnd(fc.form(x.X, true), fc.form(x.Y, true))
			}
			return psOr(fc.form(x.X, false), fc.form(x.Y, false))
		case token.LOR:
			if pos {
				return psOr(fc.form(x.X, true), fc.form(x.Y, true))
			}
			return psAnd(fc.form(x.X, false), fc.form(x.Y, false))
		case token.LSS, token.LEQ, token.GTR, token.GEQ, token.EQL, token.NEQ:
			var f *psForm
			if psIsInt(fc.info.TypeOf(x.X)) && psIsInt(fc.info.TypeOf(x.Y)) {
				l, ok1 := fc.lin(x.X)
				r, ok2 := fc.lin(x.Y)
				if ok1 && ok2 {
					f = psCmp(l, x.Op.String(), r)
				}
			} else if (x.Op == token.EQL || x.Op == token.NEQ) && psIsString(fc.info.TypeOf(x.X)) {
				// s == "const": len(s) = len("const"); s != "": len(s) ≠ 0
				str, other := x.X, x.Y
				if tv := fc.info.Types[str]; tv.Value != nil {
					str, other = other, str
				}
				if tv := fc.info.Types[other]; tv.Value != nil && tv.Value.Kind() == constant.String && fc.info.Types[str].Value == nil {
					if l, ok := fc.lenOf(str); ok {
						k := int64(len(constant.StringVal(tv.Value)))
						assertsEq := (x.Op == token.EQL) == pos
						if assertsEq {
							return psCmp(l, "=", psConst(k))
						}
						if k == 0 {
							return psCmp(l, "≠", psConst(0))
						}
						return psTrue
					}
				}
			}
			if f == nil {
				return psTrue
			}
			if !pos {
				return psNegCmp(f)
			}
			return f
		}
	case *ast.CallExpr:
		// strings.HasPrefix(s, "const") / HasSuffix: len(s) ≥ len(const)
		if pos {
			if se, ok := x.Fun.(*ast.SelectorExpr); ok && len(x.Args) == 2 {
				if id, ok := se.X.(*ast.Ident); ok && id.Name == "strings" && (se.Sel.Name == "HasPrefix" || se.Sel.Name == "HasSuffix") {
					if tv := fc.info.Types[x.Args[1]]; tv.Value != nil && tv.Value.Kind() == constant.String {
						if l, ok := fc.lenOf(x.Args[0]); ok {
							return psCmp(psConst(int64(len(constant.StringVal(tv.Value)))), "≤", l)
						}
					}
				}
			}
		}
	}
	return psTrue
}

func psTerminates(b *ast.BlockStmt) bool {
	if b == nil || len(b.List) == 0 {
		return false
	}
	switch s := b.List[len(b.List)-1].(type) {
	case *ast.ReturnStmt:
		return true
	case *ast.BranchStmt:
		return s.Tok != token.FALLTHROUGH
	case *ast.ExprStmt:
		if c, ok := s.X.(*ast.CallExpr); ok {
			if id, ok := c.Fun.(*ast.Ident); ok && id.Name == "panic" {
				return true
			}
		}
	}
	return false
}

// earlyFacts: what holds after the if statement when control falls out of it, and whether it never does.
func (fc *psFunc) earlyFacts(s *ast.IfStmt, conds *[]ast.Expr) (*psForm, bool) {
	*conds = append(*conds, s.Cond)
	bodyT := psTerminates(s.Body)
	switch e := s.Else.(type) {
	case nil:
		if bodyT {
			return fc.form(s.Cond, false), false
		}
		return psTrue, false
	case *ast.BlockStmt:
		elseT := psTerminates(e)
		switch {
		case bodyT && elseT:
			return psTrue, true
		case bodyT:
			return fc.form(s.Cond, false), false
		case elseT:
			return fc.form(s.Cond, true), false
		}
		return psTrue, false
	case *ast.IfStmt:
		if !bodyT {
			return psTrue, false // the else-if facts hold only on some paths
		}
		f, t := fc.earlyFacts(e, conds)
		return psAnd(fc.form(s.Cond, false), f), t
	}
	return psTrue, false
}

func psIn(p token.Pos, n ast.Node) bool {
	return n != nil && n.Pos() <= p && p < n.End()
}

// assignFacts: v := e / v = e / var v = e / x := make([]T, n) / x := []T{…}
func (fc *psFunc) assignFacts(s ast.Stmt, site ast.Node) []psHyp {
	var out []psHyp
	one := func(lhs ast.Expr, rhs ast.Expr, end token.Pos) {
		lhs = psStrip(lhs)
		if _, ok := lhs.(*ast.Ident); !ok {
			return
		}
		if id := lhs.(*ast.Ident); id.Name == "_" {
			return
		}
		t := fc.info.TypeOf(lhs)
		var f *psForm
		if psIsInt(t) {
			l, ok1 := fc.lin(lhs)
			r, ok2 := fc.lin(rhs)
			if ok1 && ok2 && !l.isConst() {
				f = psCmp(l, "=", r)
			}
		} else if t != nil {
			if _, isSlice := t.Underlying().(*types.Slice); isSlice || psIsString(t) {
				l, ok := fc.lenOf(lhs)
				if ok && !l.isConst() {
					r := psStrip(rhs)
					if c, isCall := r.(*ast.CallExpr); isCall {
						if id, ok := c.Fun.(*ast.Ident); ok && id.Name == "make" && len(c.Args) >= 2 {
							if _, isB := fc.info.ObjectOf(id).(*types.Builtin); isB {
								if n, ok := fc.lin(c.Args[1]); ok {
									f = psCmp(l, "=", n)
								}
							}
						}
					} else if rl, ok := fc.lenOf(r); ok && rl.isConst() { // composite literal / string constant
						f = psCmp(l, "=", rl)
					}
				}
			}
		}
		if f != nil {
			out = append(out, psHyp{f: f, kind: "assign", gpos: s.Pos(), ranges: [][2]token.Pos{{end, site.Pos()}},
				desc: "assignment " + pos(s.Pos())})
		}
	}
	switch x := s.(type) {
	case *ast.AssignStmt:
		if (x.Tok == token.DEFINE || x.Tok == token.ASSIGN) && len(x.Lhs) == len(x.Rhs) {
			if len(x.Lhs) > 1 {
				return nil // parallel assignment: right-hand sides see the old values
			}
			one(x.Lhs[0], x.Rhs[0], x.End())
		}
	case *ast.DeclStmt:
		if gd, ok := x.Decl.(*ast.GenDecl); ok && gd.Tok == token.VAR {
			for _, sp := range gd.Specs {
				vs := sp.(*ast.ValueSpec)
				if len(vs.Names) == 1 && len(vs.Values) == 1 {
					one(vs.Names[0], vs.Values[0], x.End())
				}
			}
		}
	}
	return out
}

// hyps: the hypotheses available at the site (last element of path).
func (fc *psFunc) hyps(path []ast.Node) []psHyp {
	var hs []psHyp
	site := path[len(path)-1]
	S := site.Pos()
	blockFacts := func(list []ast.Stmt, child ast.Node) {
		for _, st := range list {
			if st.Pos() >= child.Pos() {
				break
			}
			if ls, ok := st.(*ast.LabeledStmt); ok {
				st = ls.Stmt
			}
			switch s := st.(type) {
			case *ast.IfStmt:
				if h, ok := fc.clampFact(s, S); ok {
					hs = append(hs, h)
				}
				var conds []ast.Expr
				f, _ := fc.earlyFacts(s, &conds)
				if f.op != "true" {
					rs := [][2]token.Pos{{s.End(), S}}
					if s.Init != nil {
						rs = append(rs, [2]token.Pos{s.Init.Pos(), s.Init.End()})
					}
					for _, c := range conds {
						rs = append(rs, [2]token.Pos{c.Pos(), c.End()})
					}
					for _, cj := range psConjuncts(f) {
						hs = append(hs, psHyp{f: cj, kind: "early", gpos: s.Pos(), ranges: rs, desc: "early exit " + pos(s.Pos())})
					}
				}
			default:
				hs = append(hs, fc.assignFacts(st, site)...)
			}
		}
	}
	for k := 0; k+1 < len(path); k++ {
		child := path[k+1]
		switch n := path[k].(type) {
		case *ast.FuncLit:
			hs = nil
		case *ast.BlockStmt:
			blockFacts(n.List, child)
		case *ast.CommClause:
			blockFacts(n.Body, child)
		case *ast.CaseClause:
			inBody := false
			for _, b := range n.Body {
				if b == child {
					inBody = true
				}
			}
			if !inBody {
				break
			}
			blockFacts(n.Body, child)
			if k >= 2 {
				if sw, ok := path[k-2].(*ast.SwitchStmt); ok {
					hs = append(hs, fc.caseFacts(sw, n, S)...)
				}
			}
		case *ast.IfStmt:
			if n.Init != nil && child != ast.Node(n.Init) {
				hs = append(hs, fc.assignFacts(n.Init, site)...)
			}
			if child == ast.Node(n.Body) {
				for _, cj := range psConjuncts(fc.form(n.Cond, true)) {
					hs = append(hs, psHyp{f: cj, kind: "if", gpos: n.Cond.Pos(), ranges: [][2]token.Pos{{n.Cond.Pos(), S}}, desc: "if " + pos(n.Pos())})
				}
			} else if n.Else != nil && child == ast.Node(n.Else) {
				for _, cj := range psConjuncts(fc.form(n.Cond, false)) {
					hs = append(hs, psHyp{f: cj, kind: "else", gpos: n.Cond.Pos(),
						ranges: [][2]token.Pos{{n.Cond.Pos(), n.Cond.End()}, {n.Else.Pos(), S}}, desc: "else of if " + pos(n.Pos())})
				}
			}
		case *ast.SwitchStmt:
			if n.Init != nil && child != ast.Node(n.Init) {
				hs = append(hs, fc.assignFacts(n.Init, site)...)
			}
		case *ast.ForStmt:
			if n.Init != nil && child != ast.Node(n.Init) {
				hs = append(hs, fc.assignFacts(n.Init, site)...)
			}
			if child == ast.Node(n.Body) {
				if n.Cond != nil {
					for _, cj := range psConjuncts(fc.form(n.Cond, true)) {
						hs = append(hs, psHyp{f: cj, kind: "for", gpos: n.Cond.Pos(),
							ranges: [][2]token.Pos{{n.Cond.Pos(), n.Cond.End()}, {n.Body.Pos(), S}}, desc: "for condition " + pos(n.Pos())})
					}
				}
				hs = append(hs, fc.countedFacts(n, S)...)
			}
		case *ast.RangeStmt:
			if child == ast.Node(n.Body) {
				hs = append(hs, fc.rangeFacts(n, S)...)
			}
		case *ast.BinaryExpr:
			if (n.Op == token.LAND || n.Op == token.LOR) && child == ast.Node(n.Y) {
				kind := "and"
				if n.Op == token.LOR {
					kind = "or"
				}
				for _, cj := range psConjuncts(fc.form(n.X, n.Op == token.LAND)) {
					hs = append(hs, psHyp{f: cj, kind: kind, gpos: n.X.Pos(), ranges: [][2]token.Pos{{n.X.Pos(), S}}, desc: "left operand of " + n.Op.String() + " " + pos(n.Pos())})
				}
			}
		}
	}
	return hs
}

// clampFact: after `if c { v = e }` (no else, one statement; e linear and not mentioning v) either c was false and
// nothing changed, or v = e; likewise `if c { x = x[:e] }` gives ¬c ∨ len(x) = e (if that slice expression did not panic).
func (fc *psFunc) clampFact(s *ast.IfStmt, S token.Pos) (psHyp, bool) {
	if s.Else != nil || s.Init != nil || len(s.Body.List) != 1 {
		return psHyp{}, false
	}
	as, ok := s.Body.List[0].(*ast.AssignStmt)
	if !ok || as.Tok != token.ASSIGN || len(as.Lhs) != 1 || len(as.Rhs) != 1 {
		return psHyp{}, false
	}
	lhs, ok := psStrip(as.Lhs[0]).(*ast.Ident)
	if !ok {
		return psHyp{}, false
	}
	var eq *psForm
	var self string
	if psIsInt(fc.info.TypeOf(lhs)) {
		l, ok1 := fc.lin(lhs)
		r, ok2 := fc.lin(as.Rhs[0])
		if !ok1 || !ok2 || l.isConst() {
			return psHyp{}, false
		}
		for k := range l.c {
			self = k
		}
		eq = psCmp(l, "=", r)
		if _, mentions := r.c[self]; mentions {
			return psHyp{}, false
		}
	} else if se, ok := psStrip(as.Rhs[0]).(*ast.SliceExpr); ok && se.Max == nil && se.High != nil {
		if id, ok := psStrip(se.X).(*ast.Ident); !ok || fc.info.ObjectOf(id) != fc.info.ObjectOf(lhs) {
			return psHyp{}, false
		}
		if se.Low != nil {
			if lo, ok := fc.lin(se.Low); !ok || !lo.isConst() || lo.k != 0 {
				return psHyp{}, false
			}
		}
		l, ok1 := fc.lenOf(lhs)
		r, ok2 := fc.lin(se.High)
		if !ok1 || !ok2 || l.isConst() {
			return psHyp{}, false
		}
		for k := range l.c {
			self = k
		}
		if _, mentions := r.c[self]; mentions {
			return psHyp{}, false
		}
		eq = psCmp(l, "=", r)
	} else {
		return psHyp{}, false
	}
	nc := fc.form(s.Cond, false)
	if nc.op == "true" {
		return psHyp{}, false
	}
	return psHyp{f: psOr(nc, eq), kind: "early", gpos: s.Pos(), ranges: [][2]token.Pos{{s.Cond.Pos(), s.Cond.End()}, {s.End(), S}},
		desc: "clamp " + pos(s.Pos())}, true
}

func psConjuncts(f *psForm) []*psForm {
	switch f.op {
	case "true":
		return nil
	case "and":
		return f.sub
	}
	return []*psForm{f}
}

func (fc *psFunc) caseFacts(sw *ast.SwitchStmt, cc *ast.CaseClause, S token.Pos) []psHyp {
	var tag *psLin
	if sw.Tag != nil {
		l, ok := fc.lin(sw.Tag)
		if !ok {
			return nil
		}
		tag = &l
	}
	clauseForm := func(c *ast.CaseClause, pos bool) *psForm {
		var parts []*psForm
		for _, e := range c.List {
			var f *psForm
			if tag != nil {
				v, ok := fc.lin(e)
				if !ok {
					f = psTrue
				} else if pos {
					f = psCmp(*tag, "=", v)
				} else {
					f = psCmp(*tag, "≠", v)
				}
			} else {
				f = fc.form(e, pos)
			}
			parts = append(parts, f)
		}
		if pos {
			return psOr(parts...)
		}
		return psAnd(parts...)
	}
	var fs []*psForm
	prevFallsThrough := false
	for _, st := range sw.Body.List {
		c := st.(*ast.CaseClause)
		if c == cc {
			break
		}
		fs = append(fs, clauseForm(c, false))
		prevFallsThrough = len(c.Body) > 0 && func() bool {
			b, ok := c.Body[len(c.Body)-1].(*ast.BranchStmt)
			return ok && b.Tok == token.FALLTHROUGH
		}()
	}
	if prevFallsThrough {
		return nil
	}
	if cc.List != nil {
		fs = append(fs, clauseForm(cc, true))
	} else {
		// default: every other clause failed
		fs = nil
		for _, st := range sw.Body.List {
			if c := st.(*ast.CaseClause); c != cc {
				fs = append(fs, clauseForm(c, false))
			}
		}
	}
	var out []psHyp
	for _, cj := range psConjuncts(psAnd(fs...)) {
		out = append(out, psHyp{f: cj, kind: "case", gpos: sw.Pos(), ranges: [][2]token.Pos{{sw.Pos(), S}}, desc: "case of switch " + pos(sw.Pos())})
	}
	return out
}

func (fc *psFunc) identObj(e ast.Expr) types.Object {
	if id, ok := psStrip(e).(*ast.Ident); ok && id.Name != "_" {
		return fc.info.ObjectOf(id)
	}
	return nil
}

func (fc *psFunc) rangeFacts(r *ast.RangeStmt, S token.Pos) []psHyp {
	if r.Key == nil || r.Tok != token.DEFINE {
		return nil
	}
	ko := fc.identObj(r.Key)
	if ko == nil {
		return nil
	}
	k, ok := fc.lin(r.Key)
	if !ok {
		return nil
	}
	var bound psLin
	t := fc.info.TypeOf(r.X)
	if psIsInt(t) {
		b, ok := fc.lin(r.X)
		if !ok {
			return nil
		}
		bound = b
	} else {
		b, ok := fc.lenOf(r.X)
		if !ok {
			return nil
		}
		bound = b
	}
	f := psAnd(psCmp(psConst(0), "≤", k), psCmp(k, "<", bound))
	return []psHyp{{f: f, kind: "range", gpos: r.Pos(), ranges: [][2]token.Pos{{r.Pos(), S}}, frozenIn: r.Body, frozen: []types.Object{ko},
		desc: "range " + pos(r.Pos())}}
}

// countedFacts: for i := c; …; i++ (or i += k, k ≥ 1) gives c ≤ i; for i := c; …; i-- gives i ≤ c — provided the
// body does not assign i.
func (fc *psFunc) countedFacts(l *ast.ForStmt, S token.Pos) []psHyp {
	init, ok := l.Init.(*ast.AssignStmt)
	if !ok || len(init.Lhs) != 1 || len(init.Rhs) != 1 || l.Post == nil {
		return nil
	}
	io := fc.identObj(init.Lhs[0])
	if io == nil || !psIsInt(io.Type()) {
		return nil
	}
	dir := 0
	switch p := l.Post.(type) {
	case *ast.IncDecStmt:
		if fc.identObj(p.X) == io {
			if p.Tok == token.INC {
				dir = 1
			} else {
				dir = -1
			}
		}
	case *ast.AssignStmt:
		if len(p.Lhs) == 1 && len(p.Rhs) == 1 && fc.identObj(p.Lhs[0]) == io {
			if c, ok := fc.lin(p.Rhs[0]); ok && c.isConst() && c.k >= 1 {
				if p.Tok == token.ADD_ASSIGN {
					dir = 1
				} else if p.Tok == token.SUB_ASSIGN {
					dir = -1
				}
			}
		}
	}
	if dir == 0 {
		return nil
	}
	i, ok1 := fc.lin(init.Lhs[0])
	c, ok2 := fc.lin(init.Rhs[0])
	if !ok1 || !ok2 {
		return nil
	}
	var f *psForm
	if dir == 1 {
		f = psCmp(c, "≤", i)
	} else {
		f = psCmp(i, "≤", c)
	}
	return []psHyp{{f: f, kind: "counted", gpos: l.Pos(), ranges: [][2]token.Pos{{init.End(), init.End()}}, frozenIn: l.Body, frozen: []types.Object{io},
		desc: "counted loop " + pos(l.Pos())}}
}

// ---- stability ----

func psPrefix(p, q []*types.Var) bool {
	if len(p) > len(q) {
		return false
	}
	for i := range p {
		if p[i] != q[i] {
			return false
		}
	}
	return true
}

func (fc *psFunc) isPkgLevel(o types.Object) bool {
	return o.Pkg() != nil && o.Parent() == o.Pkg().Scope()
}

func (fc *psFunc) modifies(a *psAtom, ev *psEvent) bool {
	if ev.assign && ev.plain && ev.root == a.root && psPrefix(ev.path, a.fields) {
		return true
	}
	if ev.mods == nil {
		return false
	}
	if len(a.fields) > 0 {
		if ev.mods.top {
			return true
		}
		for _, f := range a.fields {
			if ev.mods.set[f] {
				return true
			}
		}
	}
	if fc.isPkgLevel(a.root) && (ev.mods.top || ev.mods.set[a.root]) {
		return true
	}
	return false
}

func psInnermostLit(path []ast.Node) *ast.FuncLit {
	for k := len(path) - 1; k >= 0; k-- {
		if fl, ok := path[k].(*ast.FuncLit); ok {
			return fl
		}
	}
	return nil
}

// stable: may atom a have changed between the guard of h and the site?
func (fc *psFunc) stable(a *psAtom, h *psHyp, path []ast.Node) bool {
	ok, shift := fc.stableShift(a, h, path)
	return ok && shift == 0
}

// stableShift: as stable, but an increment `v += c` that is a statement of a block enclosing the site, lies between
// guard and site and is not inside a loop that excludes the guard is executed exactly once on the way from the
// guard to the site: the atom is then not lost but shifted (value at the guard = value at the site - shift).
func (fc *psFunc) stableShift(a *psAtom, h *psHyp, path []ast.Node) (bool, int64) {
	var shift int64
	if fc.escaped[a.root] {
		return false, 0
	}
	site := path[len(path)-1]
	siteLit := psInnermostLit(path[:len(path)-1])
	// loops around the site that do not contain the guard in their cyclic part; loops whose post holds the site
	var loops []ast.Node // nodes all of whose events count
	for k := 0; k+1 < len(path); k++ {
		switch l := path[k].(type) {
		case *ast.ForStmt:
			child := path[k+1]
			if child == ast.Node(l.Init) {
				continue
			}
			gIn := psIn(h.gpos, l.Body) || (l.Cond != nil && psIn(h.gpos, l.Cond)) || (l.Post != nil && psIn(h.gpos, l.Post))
			if !gIn {
				loops = append(loops, l.Body)
				if l.Cond != nil {
					loops = append(loops, l.Cond)
				}
				if l.Post != nil {
					loops = append(loops, l.Post)
				}
			} else if l.Post != nil && child == ast.Node(l.Post) {
				loops = append(loops, l.Body)
			}
		case *ast.RangeStmt:
			if path[k+1] == ast.Node(l.Body) && !psIn(h.gpos, l.Body) {
				loops = append(loops, l.Body)
			}
		}
	}
	for i := range fc.events {
		ev := &fc.events[i]
		if !fc.modifies(a, ev) {
			continue
		}
		if ev.lit != siteLit {
			// an event in the enclosing function (or an enclosing closure) cannot run while the closure holding
			// guard and site runs; events in other closures can run at any call: they always count
			if ev.lit == nil || (siteLit != nil && psIn(siteLit.Pos(), ev.lit)) {
				continue
			}
			return false, 0
		}
		for _, l := range loops {
			if psIn(ev.pos, l) {
				return false, 0
			}
		}
		for _, r := range h.ranges {
			if r[0] <= ev.pos && ev.pos < r[1] {
				if ev.delta != nil && !a.isLen && len(a.fields) == 0 && psOnSpine(ev.stmt, path) {
					shift += *ev.delta
					break
				}
				return false, 0
			}
		}
		_ = site
	}
	return true, shift
}

// psOnSpine: is st a statement of a block that encloses the site, before the statement that holds the site?
func psOnSpine(st ast.Stmt, path []ast.Node) bool {
	if st == nil {
		return false
	}
	for k := 0; k+1 < len(path); k++ {
		var list []ast.Stmt
		switch b := path[k].(type) {
		case *ast.BlockStmt:
			list = b.List
		case *ast.CaseClause:
			list = b.Body
		case *ast.CommClause:
			list = b.Body
		}
		for _, s := range list {
			if s == st && st.End() <= path[k+1].Pos() {
				return true
			}
		}
	}
	return false
}

func (f *psForm) shiftAtom(key string, d int64) *psForm {
	switch f.op {
	case "true":
		return f
	case "and", "or":
		g := &psForm{op: f.op}
		for _, s := range f.sub {
			g.sub = append(g.sub, s.shiftAtom(key, d))
		}
		return g
	}
	sh := func(l psLin) psLin {
		if c, ok := l.c[key]; ok {
			r := l.add(psConst(c*d), -1)
			return r
		}
		return l
	}
	return &psForm{op: f.op, l: sh(f.l), r: sh(f.r)}
}

func (fc *psFunc) hypValid(h *psHyp, path []ast.Node) bool {
	as := map[string]bool{}
	h.f.atoms(as)
	for k := range as {
		ok, shift := fc.stableShift(fc.atoms[k], h, path)
		if !ok {
			return false
		}
		if shift != 0 {
			h.f = h.f.shiftAtom(k, shift)
			h.desc += fmt.Sprintf(" (%s moved by %+d since)", fc.atoms[k].disp, shift)
		}
	}
	// loop variables must not be assigned in the loop body at all
	for _, o := range h.frozen {
		if fc.escaped[o] {
			return false
		}
		for i := range fc.events {
			ev := &fc.events[i]
			if ev.assign && ev.plain && ev.root == o && len(ev.path) == 0 && psIn(ev.pos, h.frozenIn) {
				return false
			}
		}
	}
	return true
}

// deltaOf: the constant c if the i-th assignment of s is `v += c`, `v -= c`, `v = v + c`, `v = v - c`.
func (fc *psFunc) deltaOf(s *ast.AssignStmt, i int) *int64 {
	if len(s.Lhs) != 1 || len(s.Rhs) != 1 || i != 0 {
		return nil
	}
	if _, ok := psStrip(s.Lhs[0]).(*ast.Ident); !ok || !psIsInt(fc.info.TypeOf(s.Lhs[0])) {
		return nil
	}
	r, ok := fc.lin(s.Rhs[0])
	if !ok {
		return nil
	}
	switch s.Tok {
	case token.ADD_ASSIGN:
		if r.isConst() {
			return &r.k
		}
	case token.SUB_ASSIGN:
		if r.isConst() {
			d := -r.k
			return &d
		}
	case token.ASSIGN:
		l, ok := fc.lin(s.Lhs[0])
		if !ok {
			return nil
		}
		if d := r.add(l, -1); d.isConst() {
			return &d.k
		}
	}
	return nil
}

// ---- the per-function event list ----

func (fc *psFunc) collectEvents(body ast.Node) {
	var lits []*ast.FuncLit
	var stack []ast.Node
	cur := func() *ast.FuncLit {
		if len(lits) == 0 {
			return nil
		}
		return lits[len(lits)-1]
	}
	assign := func(lhs ast.Expr, at token.Pos, st ast.Stmt, delta *int64) {
		ev := psEvent{pos: at, lit: cur(), assign: true, mods: &psModSet{set: map[types.Object]bool{}}, stmt: st, delta: delta}
		psLHSFields(fc.info, lhs, ev.mods)
		if r, p, ok := fc.psPath(lhs); ok {
			ev.root, ev.path, ev.plain = r, p, true
			if len(p) == 0 && cur() != nil && !psIn(r.Pos(), cur()) {
				fc.escaped[r] = true // assigned inside a closure that does not declare it
			}
		}
		fc.events = append(fc.events, ev)
	}
	ast.Inspect(body, func(n ast.Node) bool {
		if n == nil {
			top := stack[len(stack)-1]
			stack = stack[:len(stack)-1]
			if fl, ok := top.(*ast.FuncLit); ok && len(lits) > 0 && lits[len(lits)-1] == fl {
				lits = lits[:len(lits)-1]
			}
			return true
		}
		stack = append(stack, n)
		switch x := n.(type) {
		case *ast.FuncLit:
			lits = append(lits, x)
		case *ast.AssignStmt:
			for i, l := range x.Lhs {
				if id, ok := l.(*ast.Ident); ok && x.Tok == token.DEFINE && fc.info.Defs[id] != nil {
					// a fresh variable
					if len(x.Lhs) == len(x.Rhs) && psIsInt(fc.info.TypeOf(id)) {
						if c, ok := fc.lin(x.Rhs[i]); ok && c.isConst() {
							fc.defs[fc.info.Defs[id]] = c.k
						}
					}
					continue
				}
				assign(l, x.End()-1, x, fc.deltaOf(x, i)) // the store happens after the right-hand side is evaluated
			}
		case *ast.DeclStmt:
			if gd, ok := x.Decl.(*ast.GenDecl); ok && gd.Tok == token.VAR {
				for _, sp := range gd.Specs {
					vs := sp.(*ast.ValueSpec)
					for i, nm := range vs.Names {
						if !psIsInt(fc.info.TypeOf(nm)) || fc.info.Defs[nm] == nil {
							continue
						}
						if len(vs.Values) == 0 {
							fc.defs[fc.info.Defs[nm]] = 0
						} else if len(vs.Values) == len(vs.Names) {
							if c, ok := fc.lin(vs.Values[i]); ok && c.isConst() {
								fc.defs[fc.info.Defs[nm]] = c.k
							}
						}
					}
				}
			}
		case *ast.IncDecStmt:
			d := int64(1)
			if x.Tok == token.DEC {
				d = -1
			}
			assign(x.X, x.End()-1, x, &d)
		case *ast.RangeStmt:
			if x.Tok == token.ASSIGN {
				if x.Key != nil {
					assign(x.Key, x.Pos(), x, nil)
				}
				if x.Value != nil {
					assign(x.Value, x.Pos(), x, nil)
				}
			}
		case *ast.UnaryExpr:
			if x.Op == token.AND {
				if r, _, ok := fc.psPath(x.X); ok {
					fc.escaped[r] = true
				}
			}
		case *ast.CallExpr:
			fc.events = append(fc.events, psEvent{pos: x.Pos(), lit: cur(), mods: fc.mi.callMods(fc.info, x, fc.closure)})
			// v.M() with a pointer receiver on an addressable value takes &v
			if se, ok := x.Fun.(*ast.SelectorExpr); ok {
				if sel := fc.info.Selections[se]; sel != nil && sel.Kind() == types.MethodVal {
					if sig, ok := sel.Obj().Type().(*types.Signature); ok && sig.Recv() != nil {
						_, recvPtr := sig.Recv().Type().(*types.Pointer)
						_, argPtr := fc.info.TypeOf(se.X).Underlying().(*types.Pointer)
						if recvPtr && !argPtr {
							if r, _, ok := fc.psPath(se.X); ok {
								fc.escaped[r] = true
							}
						}
					}
				}
			}
		}
		return true
	})
}

// ---- classification ----

type psCtx struct {
	sites    []PanicSite
	lits     []LitSite
	plainIdx int
}

func (fc *psFunc) classifyBounds(path []ast.Node, goal []*psForm, goalAtoms map[string]bool, s *PanicSite) {
	all := fc.hyps(path)
	// keep valid hypotheses connected to the goal
	var valid []psHyp
	for i := range all {
		if fc.hypValid(&all[i], path) {
			valid = append(valid, all[i])
		}
	}
	valid = append(valid, fc.monotoneFacts()...)
	rel := map[string]bool{}
	for a := range goalAtoms {
		rel[a] = true
	}
	used := make([]bool, len(valid))
	for changed := true; changed; {
		changed = false
		for i, h := range valid {
			if used[i] {
				continue
			}
			as := map[string]bool{}
			h.f.atoms(as)
			hit := false
			for a := range as {
				if rel[a] {
					hit = true
				}
			}
			if hit {
				used[i] = true
				changed = true
				for a := range as {
					rel[a] = true
				}
			}
		}
	}
	var hs []psHyp
	for i, h := range valid {
		if used[i] {
			hs = append(hs, h)
		}
	}
	if len(hs) > 24 {
		hs = hs[len(hs)-24:] // innermost guards
	}
	base := func(sel []psHyp) []psCon {
		as := map[string]bool{}
		for a := range goalAtoms {
			as[a] = true
		}
		for _, h := range sel {
			h.f.atoms(as)
		}
		var out []psCon
		for k := range as {
			a := fc.atoms[k]
			if a.isLen || a.nonneg {
				out = append(out, psLin{c: map[string]int64{k: -1}})
			}
			if a.max > 0 {
				out = append(out, psLin{c: map[string]int64{k: 1}, k: -a.max})
			}
		}
		return out
	}
	forms := func(sel []psHyp) []*psForm {
		var fs []*psForm
		for _, h := range sel {
			fs = append(fs, h.f)
		}
		return fs
	}
	if !psProves(forms(hs), base(hs), goal) {
		s.Class = "unguarded"
		return
	}
	// minimise (drop outer guards first)
	for i := 0; i < len(hs); {
		trial := append(append([]psHyp{}, hs[:i]...), hs[i+1:]...)
		if psProves(forms(trial), base(trial), goal) {
			hs = trial
		} else {
			i++
		}
	}
	kinds := map[string]bool{}
	var descs []string
	for _, h := range hs {
		kinds[h.kind] = true
		descs = append(descs, h.desc)
	}
	switch {
	case kinds["range"]:
		s.Class = "range-index"
	case kinds["counted"]:
		s.Class = "counted"
	default:
		s.Class = "len-guard"
	}
	if len(hs) == 0 {
		descs = []string{"holds without any guard"}
	}
	s.Guard = strings.Join(descs, "; ")
	names := &psNames{atoms: fc.atoms, name: map[string]string{}}
	s.Lean = names.statement(forms(hs), goal)
	s.Legend = names.legend()
	// non-vacuity: the hypotheses used must have a model (contradictory guards would make omega pass vacuously)
	m, ok := psModel(names.order, fc.atoms, forms(hs))
	if !ok {
		*s = PanicSite{Kind: s.Kind, Class: "unguarded", Guard: "guards found but no small model of them: " + s.Guard}
		return
	}
	s.Wit, s.WitVal = names.witness(forms(hs), m)
}

// monotoneFacts: a local integer variable defined by `v := c` (c constant) all of whose other assignments are
// increments by non-negative constants satisfies c ≤ v wherever it is in scope (v ≤ c for decrements).
func (fc *psFunc) monotoneFacts() []psHyp {
	keys := make([]string, 0, len(fc.atoms))
	for k := range fc.atoms {
		keys = append(keys, k)
	}
	sort.Strings(keys)
	var out []psHyp
	for _, k := range keys {
		a := fc.atoms[k]
		if a.isLen || len(a.fields) > 0 || fc.escaped[a.root] {
			continue
		}
		c, ok := fc.defs[a.root]
		if !ok {
			continue
		}
		up, down := true, true
		for i := range fc.events {
			ev := &fc.events[i]
			if !ev.assign || !ev.plain || ev.root != a.root || len(ev.path) != 0 {
				continue
			}
			switch {
			case ev.delta == nil:
				up, down = false, false
			case *ev.delta < 0:
				up = false
			case *ev.delta > 0:
				down = false
			}
		}
		if up {
			out = append(out, psHyp{f: psCmp(psConst(c), "≤", psVar(a)), kind: "counted", desc: fmt.Sprintf("%s starts at %d and is only incremented", a.disp, c)})
		}
		if down && !up {
			out = append(out, psHyp{f: psCmp(psVar(a), "≤", psConst(c)), kind: "counted", desc: fmt.Sprintf("%s starts at %d and is only decremented", a.disp, c)})
		}
	}
	return out
}

func (fc *psFunc) indexSite(path []ast.Node, x *ast.IndexExpr, s *PanicSite) {
	idxTV := fc.info.Types[x.Index]
	xt := fc.info.TypeOf(x.X)
	if _, isArr := psArrayLen(xt); isArr && idxTV.Value != nil {
		s.Class = "const-array"
		s.Guard = "constant index into an array: checked by the Go type checker"
		return
	}
	if tv := fc.info.Types[x.X]; tv.Value != nil && idxTV.Value != nil {
		s.Class = "string-const"
		s.Guard = "constant index into a constant string: checked by the Go type checker"
		return
	}
	n, ok1 := fc.lenOf(x.X)
	i, ok2 := fc.lin(x.Index)
	if !ok1 || !ok2 {
		s.Class = "unguarded"
		return
	}
	goal := []*psForm{psCmp(psConst(0), "≤", i), psCmp(i, "<", n)}
	ga := map[string]bool{}
	for _, g := range goal {
		g.atoms(ga)
	}
	fc.classifyBounds(path, goal, ga, s)
	if s.Class == "len-guard" {
		if i.isConst() && i.k == 0 {
			s.Class = "first-elem"
		} else if d := i.add(n, -1); d.isConst() && d.k == -1 {
			s.Class = "last-elem"
		}
	}
}

func (fc *psFunc) sliceSite(path []ast.Node, x *ast.SliceExpr, s *PanicSite) {
	n, ok := fc.lenOf(x.X)
	if !ok {
		s.Class = "unguarded"
		return
	}
	lo, hi := psConst(0), n
	if x.Low != nil {
		l, ok := fc.lin(x.Low)
		if !ok {
			s.Class = "unguarded"
			return
		}
		lo = l
	}
	if x.High != nil {
		h, ok := fc.lin(x.High)
		if !ok {
			s.Class = "unguarded"
			return
		}
		hi = h
	}
	if x.Max != nil {
		s.Class = "unguarded"
		return
	}
	goal := []*psForm{psCmp(psConst(0), "≤", lo), psCmp(lo, "≤", hi), psCmp(hi, "≤", n)}
	ga := map[string]bool{}
	for _, g := range goal {
		g.atoms(ga)
	}
	fc.classifyBounds(path, goal, ga, s)
}

func psIsLiteral(t types.Type) bool {
	if t == nil {
		return false
	}
	if p, ok := t.(*types.Pointer); ok {
		t = p.Elem()
	}
	n, ok := t.(*types.Named)
	return ok && n.Obj().Name() == "Literal" && n.Obj().Pkg() != nil && n.Obj().Pkg().Path() == modPath+"/ast"
}

// litTypeGuard: the LiteralType constants under which `recv.Value.(T)` is evaluated, found in an enclosing
// `switch recv.Type { case … }`, `if recv.Type == C`, `recv.Type == C && …`, or an earlier `if recv.Type != C { return }`.
func (fc *psFunc) litTypeGuard(path []ast.Node, recv ast.Expr) (consts []string, desc string) {
	root, fields, ok := fc.psPath(recv)
	if !ok {
		return nil, ""
	}
	recvText := exprString(psStrip(recv))
	isTypeOfRecv := func(e ast.Expr) bool {
		se, ok := psStrip(e).(*ast.SelectorExpr)
		if !ok || se.Sel.Name != "Type" {
			return false
		}
		r, f, ok := fc.psPath(se.X)
		return ok && r == root && psPrefix(f, fields) && len(f) == len(fields) && exprString(psStrip(se.X)) == recvText
	}
	constName := func(e ast.Expr) (string, bool) {
		tv := fc.info.Types[e]
		if tv.Value == nil || tv.Value.Kind() != constant.String {
			return "", false
		}
		return constant.StringVal(tv.Value), true
	}
	// eqConst: cond (under polarity pos) forces recv.Type == C for one constant C
	var eqConst func(e ast.Expr, pos bool) (string, bool)
	eqConst = func(e ast.Expr, pos bool) (string, bool) {
		e = psStrip(e)
		switch x := e.(type) {
		case *ast.UnaryExpr:
			if x.Op == token.NOT {
				return eqConst(x.X, !pos)
			}
		case *ast.BinaryExpr:
			if (x.Op == token.LAND && pos) || (x.Op == token.LOR && !pos) {
				if c, ok := eqConst(x.X, pos); ok {
					return c, true
				}
				return eqConst(x.Y, pos)
			}
			if (x.Op == token.EQL && pos) || (x.Op == token.NEQ && !pos) {
				if isTypeOfRecv(x.X) {
					return constName(x.Y)
				}
				if isTypeOfRecv(x.Y) {
					return constName(x.X)
				}
			}
		}
		return "", false
	}
	site := path[len(path)-1]
	// the receiver's Type and Value must be stable between guard and site
	typeAtom := func() *psAtom {
		a := &psAtom{key: "lit", root: root, fields: fields}
		lt := fc.info.TypeOf(recv)
		if p, ok := lt.Underlying().(*types.Pointer); ok {
			lt = p.Elem()
		}
		if st, ok := lt.Underlying().(*types.Struct); ok {
			for i := 0; i < st.NumFields(); i++ {
				if nm := st.Field(i).Name(); nm == "Type" || nm == "Value" {
					b := *a
					b.fields = append(append([]*types.Var{}, fields...), st.Field(i))
					if nm == "Type" {
						a = &b
					}
				}
			}
		}
		return a
	}()
	check := func(h *psHyp) bool {
		lt := fc.info.TypeOf(recv)
		if p, ok := lt.Underlying().(*types.Pointer); ok {
			lt = p.Elem()
		}
		st, ok := lt.Underlying().(*types.Struct)
		if !ok {
			return false
		}
		for i := 0; i < st.NumFields(); i++ {
			if nm := st.Field(i).Name(); nm == "Type" || nm == "Value" {
				a := &psAtom{key: "lit." + nm, root: root, fields: append(append([]*types.Var{}, fields...), st.Field(i))}
				if !fc.stable(a, h, path) {
					return false
				}
			}
		}
		return true
	}
	_ = typeAtom
	for k := len(path) - 2; k >= 0; k-- {
		child := path[k+1]
		switch n := path[k].(type) {
		case *ast.FuncLit:
			return nil, ""
		case *ast.CaseClause:
			if k >= 2 {
				if sw, ok := path[k-2].(*ast.SwitchStmt); ok && sw.Tag != nil && isTypeOfRecv(sw.Tag) && n.List != nil {
					var cs []string
					okAll := true
					for _, e := range n.List {
						c, ok := constName(e)
						if !ok {
							okAll = false
						}
						cs = append(cs, c)
					}
					// a preceding clause must not fall through into this one
					for i, st := range sw.Body.List {
						if st == ast.Stmt(n) && i > 0 {
							pc := sw.Body.List[i-1].(*ast.CaseClause)
							if len(pc.Body) > 0 {
								if b, ok := pc.Body[len(pc.Body)-1].(*ast.BranchStmt); ok && b.Tok == token.FALLTHROUGH {
									okAll = false
								}
							}
						}
					}
					h := &psHyp{gpos: sw.Pos(), ranges: [][2]token.Pos{{sw.Pos(), site.Pos()}}}
					if okAll && check(h) {
						return cs, "switch " + pos(sw.Pos())
					}
				}
			}
			// earlier early exits in the clause body
			if c, d := fc.litEarly(n.Body, child, site, eqConst, check); c != "" {
				return []string{c}, d
			}
		case *ast.BlockStmt:
			if c, d := fc.litEarly(n.List, child, site, eqConst, check); c != "" {
				return []string{c}, d
			}
		case *ast.IfStmt:
			if child == ast.Node(n.Body) {
				if c, ok := eqConst(n.Cond, true); ok {
					h := &psHyp{gpos: n.Cond.Pos(), ranges: [][2]token.Pos{{n.Cond.Pos(), site.Pos()}}}
					if check(h) {
						return []string{c}, "if " + pos(n.Pos())
					}
				}
			} else if n.Else != nil && child == ast.Node(n.Else) {
				if c, ok := eqConst(n.Cond, false); ok {
					h := &psHyp{gpos: n.Cond.Pos(), ranges: [][2]token.Pos{{n.Cond.Pos(), n.Cond.End()}, {n.Else.Pos(), site.Pos()}}}
					if check(h) {
						return []string{c}, "else of if " + pos(n.Pos())
					}
				}
			}
		case *ast.BinaryExpr:
			if (n.Op == token.LAND || n.Op == token.LOR) && child == ast.Node(n.Y) {
				if c, ok := eqConst(n.X, n.Op == token.LAND); ok {
					h := &psHyp{gpos: n.X.Pos(), ranges: [][2]token.Pos{{n.X.Pos(), site.Pos()}}}
					if check(h) {
						return []string{c}, "left operand of " + n.Op.String() + " " + pos(n.Pos())
					}
				}
			}
		}
	}
	return nil, ""
}

func (fc *psFunc) litEarly(list []ast.Stmt, child ast.Node, site ast.Node, eqConst func(ast.Expr, bool) (string, bool), check func(*psHyp) bool) (string, string) {
	for _, st := range list {
		if st.Pos() >= child.Pos() {
			break
		}
		s, ok := st.(*ast.IfStmt)
		if !ok || s.Else != nil || !psTerminates(s.Body) {
			continue
		}
		if c, ok := eqConst(s.Cond, false); ok {
			h := &psHyp{gpos: s.Pos(), ranges: [][2]token.Pos{{s.Cond.Pos(), s.Cond.End()}, {s.End(), site.Pos()}}}
			if check(h) {
				return c, "early exit " + pos(s.Pos())
			}
		}
	}
	return "", ""
}

func (fc *psFunc) assertSite(path []ast.Node, x *ast.TypeAssertExpr, s *PanicSite) {
	s.Assert = types.TypeString(fc.info.TypeOf(x.Type), func(p *types.Package) string { return p.Name() })
	s.Class = "unguarded"
	if se, ok := psStrip(x.X).(*ast.SelectorExpr); ok && se.Sel.Name == "Value" && psIsLiteral(fc.info.TypeOf(se.X)) {
		if cs, d := fc.litTypeGuard(path, se.X); cs != nil {
			s.Class = "literal-type"
			s.Lit = strings.Join(cs, "|")
			s.Guard = d
		}
	}
}

// analyse walks one function body (or package-level initialiser).
func (fc *psFunc) analyse(body ast.Node, ctx *psCtx) {
	fc.collectEvents(body)
	var path []ast.Node
	ast.Inspect(body, func(n ast.Node) bool {
		if n == nil {
			path = path[:len(path)-1]
			return true
		}
		path = append(path, n)
		var s *PanicSite
		switch x := n.(type) {
		case *ast.IndexExpr:
			tv, ok := fc.info.Types[x.X]
			if !ok || !tv.IsValue() {
				break
			}
			if _, isMap := tv.Type.Underlying().(*types.Map); isMap {
				break
			}
			if _, isTP := tv.Type.Underlying().(*types.Interface); isTP {
				break // type parameter operand
			}
			s = &PanicSite{Kind: "index"}
			fc.indexSite(path, x, s)
		case *ast.SliceExpr:
			s = &PanicSite{Kind: "slice"}
			fc.sliceSite(path, x, s)
		case *ast.TypeAssertExpr:
			if x.Type == nil {
				break // type switch
			}
			if _, commaOk := fc.info.TypeOf(x).(*types.Tuple); commaOk {
				break
			}
			s = &PanicSite{Kind: "assert"}
			fc.assertSite(path, x, s)
		case *ast.CompositeLit:
			fc.litConstruction(x, ctx)
		case *ast.AssignStmt:
			fc.litWrites(x, ctx)
		}
		if s != nil {
			s.Pos = pos(n.Pos())
			s.Func = fc.fn
			s.Expr = exprString(n.(ast.Expr))
			s.NExpr = normExpr(fc.info, n.(ast.Expr))
			ctx.sites = append(ctx.sites, *s)
		}
		return true
	})
}

func (fc *psFunc) litConstruction(cl *ast.CompositeLit, ctx *psCtx) {
	if !psIsLiteral(fc.info.TypeOf(cl)) {
		return
	}
	ls := LitSite{Pos: pos(cl.Pos()), Func: fc.fn, Type: "<none>", Value: "<none>", What: "construct"}
	for _, el := range cl.Elts {
		kv, ok := el.(*ast.KeyValueExpr)
		if !ok {
			ls.Type, ls.Value = "?", "?positional"
			break
		}
		key, _ := kv.Key.(*ast.Ident)
		if key == nil {
			continue
		}
		switch key.Name {
		case "Type":
			if tv := fc.info.Types[kv.Value]; tv.Value != nil && tv.Value.Kind() == constant.String {
				ls.Type = constant.StringVal(tv.Value)
			} else {
				ls.Type = "?" + exprString(kv.Value)
			}
		case "Value":
			ls.Value = psStaticType(fc.info, kv.Value)
		}
	}
	ctx.lits = append(ctx.lits, ls)
}

func psStaticType(info *types.Info, e ast.Expr) string {
	t := info.TypeOf(e)
	if t == nil {
		return "?"
	}
	if b, ok := t.(*types.Basic); ok && b.Kind() == types.UntypedNil {
		return "nil"
	}
	if types.IsInterface(t) {
		return "?interface:" + exprString(e)
	}
	if b, ok := t.(*types.Basic); ok && b.Info()&types.IsUntyped != 0 {
		t = types.Default(t)
	}
	return types.TypeString(t, func(p *types.Package) string { return p.Name() })
}

func (fc *psFunc) litWrites(as *ast.AssignStmt, ctx *psCtx) {
	for i, l := range as.Lhs {
		se, ok := psStrip(l).(*ast.SelectorExpr)
		if !ok || (se.Sel.Name != "Type" && se.Sel.Name != "Value") || !psIsLiteral(fc.info.TypeOf(se.X)) {
			continue
		}
		ls := LitSite{Pos: pos(as.Pos()), Func: fc.fn, What: "write", Type: "-", Value: "-"}
		var rhs ast.Expr
		if len(as.Rhs) == len(as.Lhs) {
			rhs = as.Rhs[i]
		}
		if se.Sel.Name == "Type" {
			ls.Type = "?"
			if rhs != nil {
				if tv := fc.info.Types[rhs]; tv.Value != nil && tv.Value.Kind() == constant.String {
					ls.Type = constant.StringVal(tv.Value)
				}
			}
		} else {
			ls.Value = "?"
			if rhs != nil {
				ls.Value = psStaticType(fc.info, rhs)
			}
		}
		ctx.lits = append(ctx.lits, ls)
	}
}

func extractPanicSites(pkgs []*packages.Package, facts *Facts, leanDir string) {
	mi := psBuildModInfo(pkgs)
	ctx := &psCtx{}
	for _, short := range psPkgs {
		var p *packages.Package
		for _, q := range pkgs {
			if q.PkgPath == modPath+"/"+short {
				p = q
			}
		}
		if p == nil {
			fmt.Fprintln(os.Stderr, "extract: panic sites: package not loaded:", short)
			os.Exit(2)
		}
		fset = p.Fset
		files := append([]*ast.File{}, p.Syntax...)
		sort.Slice(files, func(i, j int) bool {
			return p.Fset.Position(files[i].Pos()).Filename < p.Fset.Position(files[j].Pos()).Filename
		})
		for _, file := range files {
			if isVerifFile(p.Fset.Position(file.Pos()).Filename) {
				continue
			}
			// independent completeness count: every IndexExpr on a non-map value operand in the file
			ast.Inspect(file, func(n ast.Node) bool {
				if ix, ok := n.(*ast.IndexExpr); ok {
					if tv, ok := p.TypesInfo.Types[ix.X]; ok && tv.IsValue() {
						switch tv.Type.Underlying().(type) {
						case *types.Map, *types.Interface:
						default:
							ctx.plainIdx++
						}
					}
				}
				return true
			})
			for _, d := range file.Decls {
				switch x := d.(type) {
				case *ast.FuncDecl:
					if x.Body == nil {
						continue
					}
					name := x.Name.Name
					if x.Recv != nil && len(x.Recv.List) == 1 {
						name = strings.TrimPrefix(exprString(x.Recv.List[0].Type), "*") + "." + name
					}
					fc := &psFunc{info: p.TypesInfo, mi: mi, fn: short + "." + name, decl: x, escaped: map[types.Object]bool{},
						closure: map[types.Object]bool{}, atoms: map[string]*psAtom{}, pkgScope: p.Types.Scope(), defs: map[types.Object]int64{}}
					ast.Inspect(x.Body, func(n ast.Node) bool {
						if as, ok := n.(*ast.AssignStmt); ok && len(as.Lhs) == len(as.Rhs) {
							for i, l := range as.Lhs {
								if id, ok := l.(*ast.Ident); ok {
									if _, isLit := as.Rhs[i].(*ast.FuncLit); isLit {
										fc.closure[p.TypesInfo.ObjectOf(id)] = true
									}
								}
							}
						}
						return true
					})
					fc.analyse(x.Body, ctx)
				case *ast.GenDecl:
					if x.Tok != token.VAR {
						continue
					}
					fc := &psFunc{info: p.TypesInfo, mi: mi, fn: short + ".<package-level var>", decl: x, escaped: map[types.Object]bool{},
						closure: map[types.Object]bool{}, atoms: map[string]*psAtom{}, pkgScope: p.Types.Scope(), defs: map[types.Object]int64{}}
					fc.analyse(x, ctx)
				}
			}
		}
	}
	for i := range ctx.sites {
		ctx.sites[i].ID = i
	}
	facts.Tables["panic_sites"] = ctx.sites
	facts.Tables["literal_sites"] = ctx.lits
	nIdx := 0
	for _, s := range ctx.sites {
		facts.Counts["panic_sites_"+s.Kind]++
		facts.Counts["panic_class_"+s.Class]++
		if s.Kind == "index" {
			nIdx++
		}
	}
	facts.Counts["panic_index_plain_count"] = ctx.plainIdx
	if nIdx != ctx.plainIdx {
		fmt.Fprintf(os.Stderr, "extract: panic sites: inventory has %d index sites, plain count is %d (translator bug)\n", nIdx, ctx.plainIdx)
	}
	if leanDir != "" {
		writePanicSitesLean(filepath.Join(leanDir, "PanicSites.lean"), ctx)
	}
}

func psStrList(joined string) string {
	if joined == "" {
		return "[]"
	}
	var parts []string
	for _, p := range strings.Split(joined, "|") {
		parts = append(parts, lstr(p))
	}
	return "[" + strings.Join(parts, ", ") + "]"
}

func (s PanicSite) key() string { return s.Func + " | " + s.NExpr }

func writePanicSitesLean(path string, ctx *psCtx) {
	var sb strings.Builder
	sb.WriteString("-- GENERATED by /verif/extract (panicsites.go) from the Go source in /repo. Do not edit.\n")
	sb.WriteString("namespace DC.Gen.PanicSites\n\n")
	sb.WriteString("structure Site where\n  id : Nat\n  pos : String\n  func : String\n  kind : String\n  expr : String\n  cls : String\n  guard : String\n  lit : List String\n  asserted : String\n  nexpr : String\n\n")
	sb.WriteString("/-- function name + expression text with locals replaced by `$k:T`: stable under edits elsewhere in the file and under renaming of locals -/\ndef Site.key (s : Site) : String := s.func ++ \" | \" ++ s.nexpr\n\n")
	sb.WriteString("/-- every index / slice / unchecked type-assertion site of lexer, parser, internal/explain, ast -/\ndef sites : List Site := [")
	for i, s := range ctx.sites {
		if i > 0 {
			sb.WriteString(",")
		}
		fmt.Fprintf(&sb, "\n  ⟨%d, %s, %s, %s, %s, %s, %s, %s, %s, %s⟩", s.ID, lstr(s.Pos), lstr(s.Func), lstr(s.Kind), lstr(s.Expr), lstr(s.Class), lstr(s.Guard), psStrList(s.Lit), lstr(s.Assert), lstr(s.NExpr))
	}
	sb.WriteString("]\n\n")
	sb.WriteString("def unguarded : List Site := sites.filter (fun s => s.cls == \"unguarded\")\n\n")
	sb.WriteString("def literalType : List Site := sites.filter (fun s => s.cls == \"literal-type\")\n\n")
	nIdx := 0
	for _, s := range ctx.sites {
		if s.Kind == "index" {
			nIdx++
		}
	}
	fmt.Fprintf(&sb, "/-- IndexExpr nodes on non-map value operands counted by an independent plain ast.Inspect over the same files -/\ndef indexPlainCount : Nat := %d\n\n", ctx.plainIdx)
	sb.WriteString("/-- constructions of ast.Literal (file:line, function, LiteralType constant, static type of Value) and writes to the two fields -/\n")
	sb.WriteString("def literalConstructions : List (String × String × String × String × String) := [")
	for i, l := range ctx.lits {
		if i > 0 {
			sb.WriteString(",")
		}
		fmt.Fprintf(&sb, "\n  (%s, %s, %s, %s, %s)", lstr(l.Pos), lstr(l.Func), lstr(l.What), lstr(l.Type), lstr(l.Value))
	}
	sb.WriteString("]\n\n")
	sb.WriteString("/-- a checked bounds obligation -/\nstructure Cert where\n  id : Nat\n  stmt : Prop\n  proof : stmt\n\n")
	var certs []string
	for _, s := range ctx.sites {
		if s.Lean == "" {
			continue
		}
		fmt.Fprintf(&sb, "/-- %s  `%s`  in %s (%s): %s.  %s -/\ntheorem site_%d : %s := by omega\n\n", s.Pos, s.Expr, s.Func, s.Class, s.Guard, s.Legend, s.ID, s.Lean)
		if s.WitVal != "" {
			fmt.Fprintf(&sb, "/-- the guards of site %d are satisfiable -/\ntheorem site_%d_nonvacuous : %s := ⟨%s, by omega⟩\n\n", s.ID, s.ID, s.Wit, s.WitVal)
		} else {
			fmt.Fprintf(&sb, "theorem site_%d_nonvacuous : %s := by trivial\n\n", s.ID, s.Wit)
		}
		certs = append(certs, fmt.Sprintf("⟨%d, _, site_%d⟩", s.ID, s.ID))
	}
	sb.WriteString("def certs : List Cert := [")
	for i, c := range certs {
		if i > 0 {
			sb.WriteString(", ")
		}
		if i%8 == 0 {
			sb.WriteString("\n  ")
		}
		sb.WriteString(c)
	}
	sb.WriteString("]\n\nend DC.Gen.PanicSites\n")
	_ = os.MkdirAll(filepath.Dir(path), 0o755)
	_ = os.WriteFile(path, []byte(sb.String()), 0o644)
}
