package main

// Linear-arithmetic helpers of the panic-site inventory (panicsites.go): linear forms over "atoms"
// (integer variables and len(x) terms), formulas, a small Fourier-Motzkin refutation procedure and the Lean
// rendering. The procedure here only CLASSIFIES (guard found / not found); it is not trusted: every obligation
// it accepts is re-proved by Lean's `omega`, every site it rejects lands in the reviewed `unguarded` list.

import (
	"fmt"
	"go/types"
	"sort"
	"strings"
)

// psAtom is an integer-valued term that the analysis treats as a variable.
type psAtom struct {
	key    string       // unique key: root object identity + field path (+ "#len")
	disp   string       // Go text, e.g. "len(stmts)" or "i"
	isLen  bool         // a len(...) term: natural number
	nonneg bool         // unsigned integer variable
	max    int64        // >0: upper bound from the type (uint8: 255, uint16: 65535)
	root   types.Object // variable at the root of the path
	fields []*types.Var // selected fields below the root
}

// psLin is Σ c[a]·a + k.
type psLin struct {
	c map[string]int64
	k int64
}

func psConst(k int64) psLin { return psLin{c: map[string]int64{}, k: k} }
func psVar(a *psAtom) psLin  { return psLin{c: map[string]int64{a.key: 1}} }

func (l psLin) add(m psLin, sign int64) psLin {
	r := psLin{c: map[string]int64{}, k: l.k + sign*m.k}
	for a, v := range l.c {
		r.c[a] = v
	}
	for a, v := range m.c {
		r.c[a] += sign * v
		if r.c[a] == 0 {
			delete(r.c, a)
		}
	}
	return r
}

func (l psLin) scale(f int64) psLin {
	r := psLin{c: map[string]int64{}, k: l.k * f}
	if f == 0 {
		return r
	}
	for a, v := range l.c {
		r.c[a] = v * f
	}
	return r
}

func (l psLin) isConst() bool { return len(l.c) == 0 }

// psForm: "true" | "and" | "or" | comparison l op r with op in < ≤ = ≠.
type psForm struct {
	op   string
	sub  []*psForm
	l, r psLin
}

var psTrue = &psForm{op: "true"}

func psAnd(fs ...*psForm) *psForm {
	var out []*psForm
	for _, f := range fs {
		if f == nil || f.op == "true" {
			continue
		}
		if f.op == "and" {
			out = append(out, f.sub...)
		} else {
			out = append(out, f)
		}
	}
	if len(out) == 0 {
		return psTrue
	}
	if len(out) == 1 {
		return out[0]
	}
	return &psForm{op: "and", sub: out}
}

func psOr(fs ...*psForm) *psForm {
	var out []*psForm
	for _, f := range fs {
		if f == nil || f.op == "true" {
			return psTrue
		}
		if f.op == "or" {
			out = append(out, f.sub...)
		} else {
			out = append(out, f)
		}
	}
	if len(out) == 0 {
		return psTrue // an empty disjunction would be False; never produced, stay weak
	}
	if len(out) == 1 {
		return out[0]
	}
	return &psForm{op: "or", sub: out}
}

func psCmp(l psLin, op string, r psLin) *psForm {
	switch op {
	case ">":
		return &psForm{op: "<", l: r, r: l}
	case ">=", "≥":
		return &psForm{op: "≤", l: r, r: l}
	case "<=":
		op = "≤"
	case "==":
		op = "="
	case "!=":
		op = "≠"
	}
	return &psForm{op: op, l: l, r: r}
}

// psNegCmp negates a comparison leaf.
func psNegCmp(f *psForm) *psForm {
	switch f.op {
	case "<":
		return &psForm{op: "≤", l: f.r, r: f.l}
	case "≤":
		return &psForm{op: "<", l: f.r, r: f.l}
	case "=":
		return &psForm{op: "≠", l: f.l, r: f.r}
	case "≠":
		return &psForm{op: "=", l: f.l, r: f.r}
	}
	return psTrue
}

func (f *psForm) atoms(into map[string]bool) {
	switch f.op {
	case "true":
	case "and", "or":
		for _, s := range f.sub {
			s.atoms(into)
		}
	default:
		for a := range f.l.c {
			into[a] = true
		}
		for a := range f.r.c {
			into[a] = true
		}
	}
}

// ---- refutation (rational Fourier-Motzkin with integer tightening of strict inequalities) ----

// a constraint Σ c·a + k ≤ 0
type psCon = psLin

// dnf returns the disjuncts of f, each a list of constraints; ok=false if it grows beyond the cap.
func psDNF(f *psForm, limit int) ([][]psCon, bool) {
	switch f.op {
	case "true":
		return [][]psCon{{}}, true
	case "and":
		acc := [][]psCon{{}}
		for _, s := range f.sub {
			d, ok := psDNF(s, limit)
			if !ok {
				return nil, false
			}
			var next [][]psCon
			for _, a := range acc {
				for _, b := range d {
					c := append(append([]psCon{}, a...), b...)
					next = append(next, c)
				}
			}
			if len(next) > limit {
				return nil, false
			}
			acc = next
		}
		return acc, true
	case "or":
		var acc [][]psCon
		for _, s := range f.sub {
			d, ok := psDNF(s, limit)
			if !ok {
				return nil, false
			}
			acc = append(acc, d...)
			if len(acc) > limit {
				return nil, false
			}
		}
		return acc, true
	case "<": // l < r  ==  l - r + 1 ≤ 0
		c := f.l.add(f.r, -1)
		c.k++
		return [][]psCon{{c}}, true
	case "≤":
		return [][]psCon{{f.l.add(f.r, -1)}}, true
	case "=":
		return [][]psCon{{f.l.add(f.r, -1), f.r.add(f.l, -1)}}, true
	case "≠":
		a := f.l.add(f.r, -1)
		a.k++
		b := f.r.add(f.l, -1)
		b.k++
		return [][]psCon{{a}, {b}}, true
	}
	return [][]psCon{{}}, true
}

// psUnsat: is the conjunction of constraints unsatisfiable over the rationals (hence over the integers)?
func psUnsat(cons []psCon) bool {
	cur := append([]psCon{}, cons...)
	for round := 0; round < 64; round++ {
		// contradiction among constant constraints?
		vars := map[string]bool{}
		for _, c := range cur {
			if c.isConst() {
				if c.k > 0 {
					return true
				}
				continue
			}
			for a := range c.c {
				vars[a] = true
			}
		}
		if len(vars) == 0 {
			return false
		}
		// pick the variable with the fewest pos*neg combinations
		best, bestCost := "", -1
		names := make([]string, 0, len(vars))
		for a := range vars {
			names = append(names, a)
		}
		sort.Strings(names)
		for _, a := range names {
			p, n := 0, 0
			for _, c := range cur {
				if c.c[a] > 0 {
					p++
				} else if c.c[a] < 0 {
					n++
				}
			}
			if cost := p * n; bestCost < 0 || cost < bestCost {
				best, bestCost = a, cost
			}
		}
		var pos, neg, rest []psCon
		for _, c := range cur {
			switch {
			case c.c[best] > 0:
				pos = append(pos, c)
			case c.c[best] < 0:
				neg = append(neg, c)
			default:
				rest = append(rest, c)
			}
		}
		for _, p := range pos {
			for _, n := range neg {
				a, b := p.c[best], -n.c[best]
				if a > 1<<20 || b > 1<<20 {
					return false // give up rather than overflow
				}
				rest = append(rest, p.scale(b).add(n.scale(a), 1))
			}
		}
		if len(rest) > 4000 {
			return false
		}
		cur = rest
	}
	return false
}

// psProves: do the hypotheses (a conjunction of formulas) entail every conjunct of goal?
// base are constraints that always hold (type ranges of the atoms).
func psProves(hyps []*psForm, base []psCon, goal []*psForm) bool {
	d, ok := psDNF(psAnd(hyps...), 64)
	if !ok {
		return false
	}
	for _, g := range goal {
		ng, ok := psDNF(psNegCmp(g), 4)
		if !ok {
			return false
		}
		for _, h := range d {
			for _, n := range ng {
				all := append(append(append([]psCon{}, base...), h...), n...)
				if !psUnsat(all) {
					return false
				}
			}
		}
	}
	return true
}

// ---- Lean rendering ----

type psNames struct {
	atoms map[string]*psAtom
	name  map[string]string
	order []string
}

func (n *psNames) of(key string) string {
	if s, ok := n.name[key]; ok {
		return s
	}
	a := n.atoms[key]
	var s string
	if a != nil && a.isLen {
		c := 0
		for _, k := range n.order {
			if n.atoms[k].isLen {
				c++
			}
		}
		s = fmt.Sprintf("n%d", c)
	} else {
		c := 0
		for _, k := range n.order {
			if !n.atoms[k].isLen {
				c++
			}
		}
		s = fmt.Sprintf("v%d", c)
	}
	n.name[key] = s
	n.order = append(n.order, key)
	return s
}

func (n *psNames) term(key string) string {
	nm := n.of(key)
	if n.atoms[key].isLen {
		return "(" + nm + " : Int)"
	}
	return nm
}

func (n *psNames) lin(l psLin) string {
	keys := make([]string, 0, len(l.c))
	for a := range l.c {
		keys = append(keys, a)
	}
	sort.Strings(keys)
	var sb strings.Builder
	first := true
	emit := func(neg bool, body string) {
		switch {
		case first && neg:
			sb.WriteString("-" + body)
		case first:
			sb.WriteString(body)
		case neg:
			sb.WriteString(" - " + body)
		default:
			sb.WriteString(" + " + body)
		}
		first = false
	}
	for _, a := range keys {
		c := l.c[a]
		neg := c < 0
		if neg {
			c = -c
		}
		body := n.term(a)
		if c != 1 {
			body = fmt.Sprintf("%d * %s", c, body)
		}
		emit(neg, body)
	}
	if l.k != 0 || first {
		k := l.k
		neg := k < 0
		if neg {
			k = -k
		}
		emit(neg, fmt.Sprintf("%d", k))
	}
	return sb.String()
}

func (n *psNames) form(f *psForm) string {
	switch f.op {
	case "true":
		return "True"
	case "and", "or":
		sep := " ∧ "
		if f.op == "or" {
			sep = " ∨ "
		}
		var parts []string
		for _, s := range f.sub {
			parts = append(parts, "("+n.form(s)+")")
		}
		return strings.Join(parts, sep)
	}
	return n.lin(f.l) + " " + f.op + " " + n.lin(f.r)
}

// statement renders `∀ vars, base → hyp₁ → … → goal`.
func (n *psNames) statement(hyps []*psForm, goal []*psForm) string {
	// render bodies first so that every atom gets a name
	var hs []string
	for _, h := range hyps {
		hs = append(hs, n.form(h))
	}
	g := n.form(psAnd(goal...))
	var typeHyps []string
	var nats, ints []string
	for _, k := range n.order {
		a := n.atoms[k]
		if a.isLen {
			nats = append(nats, n.name[k])
			continue
		}
		ints = append(ints, n.name[k])
		if a.nonneg {
			typeHyps = append(typeHyps, "0 ≤ "+n.name[k])
		}
		if a.max > 0 {
			typeHyps = append(typeHyps, fmt.Sprintf("%s ≤ %d", n.name[k], a.max))
		}
	}
	var sb strings.Builder
	if len(nats)+len(ints) > 0 {
		sb.WriteString("∀")
		if len(nats) > 0 {
			sb.WriteString(" (" + strings.Join(nats, " ") + " : Nat)")
		}
		if len(ints) > 0 {
			sb.WriteString(" (" + strings.Join(ints, " ") + " : Int)")
		}
		sb.WriteString(", ")
	}
	for _, h := range append(typeHyps, hs...) {
		sb.WriteString("(" + h + ") → ")
	}
	sb.WriteString("(" + g + ")")
	return sb.String()
}

func (n *psNames) legend() string {
	var parts []string
	for _, k := range n.order {
		parts = append(parts, n.name[k]+" = "+n.atoms[k].disp)
	}
	return strings.Join(parts, "; ")
}

// ---- non-vacuity: a small model of the hypotheses ----

func (l psLin) eval(m map[string]int64) int64 {
	v := l.k
	for a, c := range l.c {
		v += c * m[a]
	}
	return v
}

func (f *psForm) eval(m map[string]int64) bool {
	switch f.op {
	case "true":
		return true
	case "and":
		for _, s := range f.sub {
			if !s.eval(m) {
				return false
			}
		}
		return true
	case "or":
		for _, s := range f.sub {
			if s.eval(m) {
				return true
			}
		}
		return false
	case "<":
		return f.l.eval(m) < f.r.eval(m)
	case "≤":
		return f.l.eval(m) <= f.r.eval(m)
	case "=":
		return f.l.eval(m) == f.r.eval(m)
	case "≠":
		return f.l.eval(m) != f.r.eval(m)
	}
	return false
}

// psModel searches values in a small box that satisfy all hypotheses (keys in the given order).
func psModel(keys []string, atoms map[string]*psAtom, hyps []*psForm) (map[string]int64, bool) {
	if len(keys) > 6 {
		return nil, false
	}
	m := map[string]int64{}
	var rec func(i int) bool
	rec = func(i int) bool {
		if i == len(keys) {
			for _, h := range hyps {
				if !h.eval(m) {
					return false
				}
			}
			return true
		}
		a := atoms[keys[i]]
		lo := int64(-2)
		if a.isLen || a.nonneg {
			lo = 0
		}
		for v := lo; v <= 9; v++ {
			m[keys[i]] = v
			if rec(i + 1) {
				return true
			}
		}
		return false
	}
	if rec(0) {
		return m, true
	}
	return nil, false
}

// witness renders `∃ vars, hyps` together with the anonymous-constructor prefix of its proof.
func (n *psNames) witness(hyps []*psForm, m map[string]int64) (stmt string, vals string) {
	var hs []string
	for _, h := range hyps {
		hs = append(hs, "("+n.form(h)+")")
	}
	if len(hs) == 0 {
		hs = []string{"True"}
	}
	var sb strings.Builder
	var vs []string
	for _, k := range n.order {
		a := n.atoms[k]
		ty := "Int"
		if a.isLen {
			ty = "Nat"
		}
		fmt.Fprintf(&sb, "∃ (%s : %s), ", n.name[k], ty)
		vs = append(vs, fmt.Sprintf("%d", m[k]))
	}
	sb.WriteString(strings.Join(hs, " ∧ "))
	return sb.String(), strings.Join(vs, ", ")
}
