package main

import (
	"go/ast"
	"go/constant"
	"go/token"
	"go/types"
	"strconv"
	"strings"

	"golang.org/x/tools/go/packages"
)

func findPkg(pkgs []*packages.Package, short string) *packages.Package {
	for _, p := range pkgs {
		if strings.HasSuffix(p.PkgPath, "/"+short) {
			return p
		}
	}
	return nil
}

func findFunc(p *packages.Package, recv, name string) *ast.FuncDecl {
	for _, f := range p.Syntax {
		for _, d := range f.Decls {
			fd, ok := d.(*ast.FuncDecl)
			if !ok || fd.Name.Name != name {
				continue
			}
			if recv == "" && fd.Recv == nil {
				return fd
			}
			if recv != "" && fd.Recv != nil {
				return fd
			}
		}
	}
	return nil
}

// constInt evaluates a constant expression to an int via the type checker.
func constInt(info *types.Info, e ast.Expr) (int64, bool) {
	tv, ok := info.Types[e]
	if !ok || tv.Value == nil {
		return 0, false
	}
	return constant.Int64Val(constant.ToInt(tv.Value))
}

// extractTables reads the small decision tables the Lean models import as data.
func extractTables(pkgs []*packages.Package, facts *Facts) {
	par := findPkg(pkgs, "parser")
	exp := findPkg(pkgs, "explain")
	// --- precedence constants: every package-level int constant of parser/expression.go's first const block
	if par != nil {
		precConsts := [][2]any{}
		for _, name := range []string{"LOWEST", "ALIAS_PREC", "OR_PREC", "AND_PREC", "NOT_PREC", "COMPARE", "CONCAT_PREC", "ADD_PREC", "MUL_PREC", "UNARY", "CALL", "HIGHEST"} {
			if c, ok := par.Types.Scope().Lookup(name).(*types.Const); ok {
				v, _ := constant.Int64Val(constant.ToInt(c.Val()))
				precConsts = append(precConsts, [2]any{name, v})
			}
		}
		// all int constants declared in the same block as LOWEST (catches renamed / added levels)
		var block [][2]any
		for _, f := range par.Syntax {
			for _, d := range f.Decls {
				gd, ok := d.(*ast.GenDecl)
				if !ok || gd.Tok != token.CONST {
					continue
				}
				has := false
				for _, sp := range gd.Specs {
					for _, n := range sp.(*ast.ValueSpec).Names {
						if n.Name == "LOWEST" {
							has = true
						}
					}
				}
				if !has {
					continue
				}
				for _, sp := range gd.Specs {
					for _, n := range sp.(*ast.ValueSpec).Names {
						if c, ok := par.TypesInfo.Defs[n].(*types.Const); ok {
							v, _ := constant.Int64Val(constant.ToInt(c.Val()))
							block = append(block, [2]any{n.Name, v})
						}
					}
				}
			}
		}
		facts.Tables["prec_consts"] = block
		_ = precConsts
		// precedence() switch: token constant -> returned precedence constant
		if fd := findFunc(par, "Parser", "precedence"); fd != nil {
			var rows [][3]any
			ast.Inspect(fd.Body, func(n ast.Node) bool {
				cc, ok := n.(*ast.CaseClause)
				if !ok {
					return true
				}
				var ret ast.Expr
				for _, st := range cc.Body {
					if r, ok := st.(*ast.ReturnStmt); ok && len(r.Results) == 1 {
						ret = r.Results[0]
					}
				}
				if ret == nil {
					return true
				}
				rv, _ := constInt(par.TypesInfo, ret)
				if cc.List == nil {
					rows = append(rows, [3]any{"default", int64(-1), rv})
				}
				for _, e := range cc.List {
					tv, _ := constInt(par.TypesInfo, e)
					rows = append(rows, [3]any{types.ExprString(e), tv, rv})
				}
				return true
			})
			// default return at the end of the function
			facts.Tables["precedence_switch"] = rows
		}
	}
	// --- OperatorToFunction / UnaryOperatorToFunction
	if exp != nil {
		for _, fname := range []string{"OperatorToFunction", "UnaryOperatorToFunction"} {
			fd := findFunc(exp, "", fname)
			if fd == nil {
				continue
			}
			var rows [][2]string
			ast.Inspect(fd.Body, func(n ast.Node) bool {
				cc, ok := n.(*ast.CaseClause)
				if !ok {
					return true
				}
				ret := ""
				for _, st := range cc.Body {
					if r, ok := st.(*ast.ReturnStmt); ok && len(r.Results) == 1 {
						if bl, ok := r.Results[0].(*ast.BasicLit); ok {
							ret, _ = strconv.Unquote(bl.Value)
						} else {
							ret = "<expr:" + types.ExprString(r.Results[0]) + ">"
						}
					}
				}
				if cc.List == nil {
					rows = append(rows, [2]string{"<default>", ret})
				}
				for _, e := range cc.List {
					if bl, ok := e.(*ast.BasicLit); ok {
						s, _ := strconv.Unquote(bl.Value)
						rows = append(rows, [2]string{s, ret})
					}
				}
				return true
			})
			facts.Tables[fname] = rows
		}
	}
}
