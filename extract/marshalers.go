package main

import (
	"fmt"
	"go/ast"
	"go/types"
	"os"
	"path/filepath"
	"sort"
	"strings"

	"golang.org/x/tools/go/packages"
)

// extractMarshalers emits DC/Gen/Marshalers.lean: the facts about package ast that decide whether encoding/json can
// fail on a parsed AST (C03 "json.Marshal of each statement succeeds"). json.Marshal of a tree fails only through
//   (1) a custom marshaller returning an error,
//   (2) a float32/float64 that is NaN or ±Inf reaching the default encoder ("unsupported value"),
//   (3) a value of a kind json cannot encode at all (chan, func, complex, map with a non-string/integer key).
// Listed, with no judgement:
//   customMarshalers       every method named MarshalJSON / MarshalText declared in package ast (type, method, receiver, file:line)
//   floatCapableFields     every struct field of package ast whose static type is or contains (through pointers, slices,
//                          arrays, maps, named non-struct types) a float32/float64 or an empty interface (interface{} / any) —
//                          the only places a float can sit; fields of non-empty interface types (Expression, Statement …)
//                          cannot hold a bare float because a float has no methods
//   unsupportedKindFields  struct fields whose static type contains chan / func / complex / a map with an unsupported key
//   literalFields          the fields of ast.Literal in declaration order with static type and json name (the model's record)
//   literalByValue         struct fields whose static type contains ast.Literal BY VALUE (not *Literal): MarshalJSON has a
//                          pointer receiver and is found for such a value only when it is addressable
func extractMarshalers(pkgs []*packages.Package, facts *Facts, leanDir string) {
	ap := findPkg(pkgs, "ast")
	if ap == nil {
		return
	}
	type marsh struct{ typ, method, recv, pos string }
	var ms []marsh
	for _, file := range ap.Syntax {
		if isVerifFile(ap.Fset.Position(file.Pos()).Filename) {
			continue
		}
		for _, d := range file.Decls {
			fd, ok := d.(*ast.FuncDecl)
			if !ok || fd.Recv == nil || len(fd.Recv.List) != 1 {
				continue
			}
			if fd.Name.Name != "MarshalJSON" && fd.Name.Name != "MarshalText" {
				continue
			}
			recv := "value"
			t := fd.Recv.List[0].Type
			if st, ok := t.(*ast.StarExpr); ok {
				recv = "pointer"
				t = st.X
			}
			name := "?"
			if id, ok := t.(*ast.Ident); ok {
				name = id.Name
			}
			ms = append(ms, marsh{name, fd.Name.Name, recv, pos(fd.Pos())})
		}
	}
	sort.Slice(ms, func(i, j int) bool { return ms[i].typ+ms[i].method < ms[j].typ+ms[j].method })

	// what a static type can contain
	var contains func(t types.Type, seen map[types.Type]bool, pred func(types.Type) bool) bool
	contains = func(t types.Type, seen map[types.Type]bool, pred func(types.Type) bool) bool {
		if seen[t] {
			return false
		}
		seen[t] = true
		if pred(t) {
			return true
		}
		switch x := t.(type) {
		case *types.Alias:
			return contains(types.Unalias(x), seen, pred)
		case *types.Named:
			if _, isStruct := x.Underlying().(*types.Struct); isStruct {
				return false // its fields are listed on their own (package ast) or it is foreign (token.Position: ints)
			}
			if _, isIface := x.Underlying().(*types.Interface); isIface {
				return pred(x.Underlying())
			}
			return contains(x.Underlying(), seen, pred)
		case *types.Pointer:
			return contains(x.Elem(), seen, pred)
		case *types.Slice:
			return contains(x.Elem(), seen, pred)
		case *types.Array:
			return contains(x.Elem(), seen, pred)
		case *types.Map:
			return contains(x.Key(), seen, pred) || contains(x.Elem(), seen, pred)
		}
		return false
	}
	isFloatOrAny := func(t types.Type) bool {
		switch x := t.(type) {
		case *types.Basic:
			return x.Kind() == types.Float32 || x.Kind() == types.Float64 || x.Kind() == types.UntypedFloat
		case *types.Interface:
			return x.NumMethods() == 0
		}
		return false
	}
	isUnsupported := func(t types.Type) bool {
		switch x := t.(type) {
		case *types.Basic:
			return x.Kind() == types.Complex64 || x.Kind() == types.Complex128 || x.Kind() == types.UnsafePointer
		case *types.Chan, *types.Signature:
			return true
		case *types.Map:
			kb, ok := x.Key().Underlying().(*types.Basic)
			return !ok || kb.Info()&(types.IsString|types.IsInteger) == 0
		}
		return false
	}
	var litObj types.Type
	if o := ap.Types.Scope().Lookup("Literal"); o != nil {
		litObj = o.Type()
	}
	isLiteralValue := func(t types.Type) bool { return litObj != nil && types.Identical(t, litObj) }
	containsLitByValue := func(t types.Type) bool {
		// like contains, but a pointer to Literal does not count
		var walk func(t types.Type) bool
		walk = func(t types.Type) bool {
			if isLiteralValue(t) {
				return true
			}
			switch x := t.(type) {
			case *types.Alias:
				return walk(types.Unalias(x))
			case *types.Pointer:
				if isLiteralValue(x.Elem()) {
					return false
				}
				return walk(x.Elem())
			case *types.Slice:
				return walk(x.Elem())
			case *types.Array:
				return walk(x.Elem())
			case *types.Map:
				return walk(x.Elem())
			}
			return false
		}
		return walk(t)
	}

	qual := func(p *types.Package) string {
		if p == ap.Types {
			return ""
		}
		return p.Name()
	}
	var floatFields, unsupported, byValue [][2]string
	var litFields [][3]string
	scope := ap.Types.Scope()
	names := scope.Names()
	sort.Strings(names)
	nStructs, nFields := 0, 0
	for _, n := range names {
		tn, ok := scope.Lookup(n).(*types.TypeName)
		if !ok {
			continue
		}
		st, ok := tn.Type().Underlying().(*types.Struct)
		if !ok {
			continue
		}
		nStructs++
		for i := 0; i < st.NumFields(); i++ {
			f := st.Field(i)
			nFields++
			ts := types.TypeString(f.Type(), qual)
			key := n + "." + f.Name()
			if contains(f.Type(), map[types.Type]bool{}, isFloatOrAny) {
				floatFields = append(floatFields, [2]string{key, ts})
			}
			if contains(f.Type(), map[types.Type]bool{}, isUnsupported) {
				unsupported = append(unsupported, [2]string{key, ts})
			}
			if containsLitByValue(f.Type()) {
				byValue = append(byValue, [2]string{key, ts})
			}
			if n == "Literal" {
				tag := ""
				if v, ok := reflectTag(st.Tag(i), "json"); ok {
					tag = strings.SplitN(v, ",", 2)[0] // the json name; options (omitempty) do not matter for failure
				} else {
					tag = f.Name()
				}
				litFields = append(litFields, [3]string{f.Name(), ts, tag})
			}
		}
	}

	pairList := func(name, doc string, ps [][2]string) string {
		var sb strings.Builder
		fmt.Fprintf(&sb, "/-- %s -/\ndef %s : List (String × String) := [", doc, name)
		for i, p := range ps {
			if i > 0 {
				sb.WriteString(",")
			}
			fmt.Fprintf(&sb, "\n  (%s, %s)", lstr(p[0]), lstr(p[1]))
		}
		sb.WriteString("]\n\n")
		return sb.String()
	}
	var sb strings.Builder
	sb.WriteString("-- GENERATED by /verif/extract from the Go source in /repo. Do not edit.\nnamespace DC.Gen.Marshalers\n\n")
	sb.WriteString("/-- methods named MarshalJSON / MarshalText declared in package ast: (type, method, receiver kind, file:line) -/\ndef customMarshalers : List (String × String × String × String) := [")
	for i, m := range ms {
		if i > 0 {
			sb.WriteString(",")
		}
		fmt.Fprintf(&sb, "\n  (%s, %s, %s, %s)", lstr(m.typ), lstr(m.method), lstr(m.recv), lstr(m.pos))
	}
	sb.WriteString("]\n\n")
	sb.WriteString(pairList("floatCapableFields", "struct fields of package ast whose static type is or contains float32 / float64 / an empty interface: (Type.Field, static type)", floatFields))
	sb.WriteString(pairList("unsupportedKindFields", "struct fields of package ast whose static type contains a kind encoding/json rejects (chan, func, complex, map with a non-string/integer key)", unsupported))
	sb.WriteString(pairList("literalByValue", "struct fields of package ast whose static type contains ast.Literal by value (the pointer-receiver MarshalJSON then depends on addressability)", byValue))
	sb.WriteString("/-- the fields of ast.Literal in declaration order: (name, static type, json name; `-` = not encoded) -/\ndef literalFields : List (String × String × String) := [")
	for i, f := range litFields {
		if i > 0 {
			sb.WriteString(",")
		}
		fmt.Fprintf(&sb, "\n  (%s, %s, %s)", lstr(f[0]), lstr(f[1]), lstr(f[2]))
	}
	sb.WriteString("]\n\n")
	fmt.Fprintf(&sb, "/-- struct types / struct fields of package ast that were inspected -/\ndef structCount : Nat := %d\ndef fieldCount : Nat := %d\n\n", nStructs, nFields)
	sb.WriteString("end DC.Gen.Marshalers\n")
	_ = os.WriteFile(filepath.Join(leanDir, "Marshalers.lean"), []byte(sb.String()), 0o644)
	facts.Tables["marshalers_summary"] = map[string]any{"custom": len(ms), "float_capable_fields": len(floatFields), "unsupported_kind_fields": len(unsupported),
		"literal_by_value": len(byValue), "structs": nStructs, "fields": nFields}
}

// reflectTag looks a key up in a struct tag (same conventions as reflect.StructTag.Lookup, for well-formed tags).
func reflectTag(tag, key string) (string, bool) {
	for tag != "" {
		i := 0
		for i < len(tag) && tag[i] == ' ' {
			i++
		}
		tag = tag[i:]
		if tag == "" {
			break
		}
		i = 0
		for i < len(tag) && tag[i] > ' ' && tag[i] != ':' && tag[i] != '"' && tag[i] != 0x7f {
			i++
		}
		if i == 0 || i+1 >= len(tag) || tag[i] != ':' || tag[i+1] != '"' {
			break
		}
		name := tag[:i]
		tag = tag[i+1:]
		i = 1
		for i < len(tag) && tag[i] != '"' {
			if tag[i] == '\\' {
				i++
			}
			i++
		}
		if i >= len(tag) {
			break
		}
		val := tag[1:i]
		tag = tag[i+1:]
		if name == key {
			return val, true
		}
	}
	return "", false
}
