package main

// May-modify analysis for the panic-site inventory: for every function of the library packages the set of
// struct fields / package-level variables it may assign, directly or through callees (least fixed point over the
// static call graph; interface method calls go to every library method of that name; calls of function values
// that are not local closures are "top" = may modify anything).

import (
	"go/ast"
	"go/token"
	"go/types"

	"golang.org/x/tools/go/packages"
)

type psModSet struct {
	top bool
	set map[types.Object]bool
}

func (m *psModSet) addAll(o *psModSet) bool {
	changed := false
	if o.top && !m.top {
		m.top = true
		changed = true
	}
	for k := range o.set {
		if !m.set[k] {
			m.set[k] = true
			changed = true
		}
	}
	return changed
}

type psModInfo struct {
	direct   map[*types.Func]*psModSet
	total    map[*types.Func]*psModSet
	callees  map[*types.Func][]*types.Func
	byName   map[string][]*types.Func // library methods by name
	stdHooks *psModSet                // what a std-lib call may reach through String/Error/… methods
}

// method names through which the standard library may call back into library code
var psStdHookNames = []string{"String", "Error", "MarshalJSON", "MarshalText", "Format", "GoString", "Len", "Less", "Swap",
	"Write", "WriteString", "WriteByte", "WriteRune", "Read", "ReadRune", "UnreadRune", "ReadByte", "UnreadByte"}

// psLHSFields: the objects an assignment to lhs may modify: the last selected field (through any root and any
// indexing), a package-level variable, every field of a struct overwritten as a whole (`xs[i] = T{…}`, `*p = T{…}`).
func psLHSFields(info *types.Info, lhs ast.Expr, out *psModSet) {
	e := lhs
	for {
		if p, ok := e.(*ast.ParenExpr); ok {
			e = p.X
			continue
		}
		break
	}
	addStruct := func(t types.Type) {
		if t == nil {
			return
		}
		if st, ok := t.Underlying().(*types.Struct); ok {
			for i := 0; i < st.NumFields(); i++ {
				out.set[st.Field(i)] = true
			}
		}
	}
	switch x := e.(type) {
	case *ast.Ident:
		if v, ok := info.ObjectOf(x).(*types.Var); ok && v.Pkg() != nil && v.Parent() == v.Pkg().Scope() {
			out.set[v] = true
		}
	case *ast.SelectorExpr:
		if sel := info.Selections[x]; sel != nil {
			if f, ok := sel.Obj().(*types.Var); ok {
				out.set[f] = true
			}
			addStruct(info.TypeOf(x)) // r.f = T{…} rewrites the fields of r.f too
		} else if v, ok := info.ObjectOf(x.Sel).(*types.Var); ok { // pkg.Var
			out.set[v] = true
		}
	case *ast.IndexExpr:
		addStruct(info.TypeOf(x))
		// an element write `a.arr[i] = v` into an ARRAY field modifies that field's storage; lengths are unaffected
	case *ast.StarExpr:
		if t := info.TypeOf(x); t != nil {
			if _, ok := t.Underlying().(*types.Struct); ok {
				out.top = true
			}
		}
	}
}

func psBuildModInfo(pkgs []*packages.Package) *psModInfo {
	mi := &psModInfo{direct: map[*types.Func]*psModSet{}, total: map[*types.Func]*psModSet{}, callees: map[*types.Func][]*types.Func{},
		byName: map[string][]*types.Func{}, stdHooks: &psModSet{set: map[types.Object]bool{}}}
	type item struct {
		fd   *ast.FuncDecl
		info *types.Info
		fn   *types.Func
	}
	var items []item
	for _, p := range pkgs {
		for _, file := range p.Syntax {
			if isVerifFile(p.Fset.Position(file.Pos()).Filename) {
				continue
			}
			for _, d := range file.Decls {
				fd, ok := d.(*ast.FuncDecl)
				if !ok || fd.Body == nil {
					continue
				}
				fn, ok := p.TypesInfo.Defs[fd.Name].(*types.Func)
				if !ok {
					continue
				}
				items = append(items, item{fd, p.TypesInfo, fn})
				if fd.Recv != nil {
					mi.byName[fd.Name.Name] = append(mi.byName[fd.Name.Name], fn)
				}
			}
		}
	}
	isLib := map[*types.Func]bool{}
	for _, it := range items {
		isLib[it.fn] = true
	}
	for _, it := range items {
		d := &psModSet{set: map[types.Object]bool{}}
		info := it.info
		// local variables holding closures defined in this function
		localClosure := map[types.Object]bool{}
		ast.Inspect(it.fd.Body, func(n ast.Node) bool {
			if as, ok := n.(*ast.AssignStmt); ok && len(as.Lhs) == len(as.Rhs) {
				for i, l := range as.Lhs {
					if id, ok := l.(*ast.Ident); ok {
						if _, isLit := as.Rhs[i].(*ast.FuncLit); isLit {
							localClosure[info.ObjectOf(id)] = true
						}
					}
				}
			}
			return true
		})
		ast.Inspect(it.fd.Body, func(n ast.Node) bool {
			switch x := n.(type) {
			case *ast.AssignStmt:
				for _, l := range x.Lhs {
					psLHSFields(info, l, d)
				}
			case *ast.IncDecStmt:
				psLHSFields(info, x.X, d)
			case *ast.RangeStmt:
				if x.Tok == token.ASSIGN {
					if x.Key != nil {
						psLHSFields(info, x.Key, d)
					}
					if x.Value != nil {
						psLHSFields(info, x.Value, d)
					}
				}
			case *ast.CallExpr:
				cs, top := mi.resolveCall(info, x, nil, localClosure)
				if top {
					d.top = true
				}
				for _, c := range cs {
					if isLib[c] {
						mi.callees[it.fn] = append(mi.callees[it.fn], c)
						continue
					}
					for _, nm := range psStdHookNames { // a std-lib callee may call back through these methods
						mi.callees[it.fn] = append(mi.callees[it.fn], mi.byName[nm]...)
					}
				}
			}
			return true
		})
		mi.direct[it.fn] = d
		t := &psModSet{set: map[types.Object]bool{}}
		t.addAll(d)
		mi.total[it.fn] = t
	}
	for changed := true; changed; {
		changed = false
		for _, it := range items {
			for _, c := range mi.callees[it.fn] {
				if t := mi.total[c]; t != nil && mi.total[it.fn].addAll(t) {
					changed = true
				}
			}
		}
	}
	for _, nm := range psStdHookNames {
		for _, f := range mi.byName[nm] {
			mi.stdHooks.addAll(mi.total[f])
		}
	}
	return mi
}

// resolveCall: library callees of a call; top=true if the callee is an unknown function value.
// Calls into the standard library are represented by the pseudo-callee set `stdHooks` (added by callMods).
func (mi *psModInfo) resolveCall(info *types.Info, call *ast.CallExpr, isLib map[*types.Func]bool, localClosure map[types.Object]bool) (out []*types.Func, top bool) {
	fun := call.Fun
	for {
		if p, ok := fun.(*ast.ParenExpr); ok {
			fun = p.X
			continue
		}
		break
	}
	if tv, ok := info.Types[fun]; ok && tv.IsType() {
		return nil, false // conversion
	}
	switch f := fun.(type) {
	case *ast.Ident:
		switch o := info.ObjectOf(f).(type) {
		case *types.Builtin:
			return nil, false
		case *types.Func:
			if isLib == nil || isLib[o] {
				return []*types.Func{o}, false
			}
			return nil, false
		case *types.Var:
			if localClosure != nil && localClosure[o] {
				return nil, false // body is part of the enclosing function
			}
			return nil, true
		}
		return nil, true
	case *ast.SelectorExpr:
		if sel := info.Selections[f]; sel != nil {
			switch sel.Kind() {
			case types.MethodVal:
				m := sel.Obj().(*types.Func)
				if types.IsInterface(sel.Recv()) {
					return mi.byName[m.Name()], false
				}
				if isLib == nil || isLib[m] {
					return []*types.Func{m}, false
				}
				return nil, false // method of a std-lib type
			case types.FieldVal:
				return nil, true // function-typed field
			}
			return nil, true
		}
		// qualified identifier pkg.F
		if o, ok := info.ObjectOf(f.Sel).(*types.Func); ok {
			if isLib == nil || isLib[o] {
				return []*types.Func{o}, false
			}
			return nil, false
		}
		return nil, true
	case *ast.FuncLit:
		return nil, false // body is part of the enclosing function
	}
	return nil, true
}

// callMods: what a call expression may modify.
func (mi *psModInfo) callMods(info *types.Info, call *ast.CallExpr, localClosure map[types.Object]bool) *psModSet {
	r := &psModSet{set: map[types.Object]bool{}}
	cs, top := mi.resolveCall(info, call, nil, localClosure)
	if top {
		r.top = true
		return r
	}
	isStd := false
	for _, c := range cs {
		if t := mi.total[c]; t != nil {
			r.addAll(t)
		} else {
			isStd = true
		}
	}
	if len(cs) == 0 {
		// builtin, conversion, closure or std-lib method: only a std-lib call can reach the hooks
		fun := call.Fun
		if tv, ok := info.Types[fun]; ok && tv.IsType() {
			return r
		}
		if id, ok := fun.(*ast.Ident); ok {
			if _, b := info.ObjectOf(id).(*types.Builtin); b {
				return r
			}
		}
		isStd = true
	}
	if isStd {
		r.addAll(mi.stdHooks)
	}
	return r
}
