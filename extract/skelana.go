package main

// skelana.go — a Go copy of `DC.Model.Skel.ana` (lean/DC/Model/Skel.lean), used ONLY to propose function
// contracts (a fixed point over the call graph) and to predict which loops certify, so that the translator can
// split the inventory into `loops` / `uncertified`.  Lean re-checks everything with its own `ana`; an error
// here can only make `lake build` fail, never make it accept a loop that does not certify.

import "math/bits"

// TS is a set of token kinds (at most 256).
type TS [4]uint64

func tsOf(k int) TS {
	var s TS
	s[k/64] = 1 << (uint(k) % 64)
	return s
}
func (a TS) or(b TS) TS     { return TS{a[0] | b[0], a[1] | b[1], a[2] | b[2], a[3] | b[3]} }
func (a TS) and(b TS) TS    { return TS{a[0] & b[0], a[1] & b[1], a[2] & b[2], a[3] & b[3]} }
func (a TS) andNot(b TS) TS { return TS{a[0] &^ b[0], a[1] &^ b[1], a[2] &^ b[2], a[3] &^ b[3]} }
func (a TS) isZero() bool   { return a == TS{} }
func (a TS) has(k int) bool { return a[k/64]&(1<<(uint(k)%64)) != 0 }
func (a TS) count() int {
	return bits.OnesCount64(a[0]) + bits.OnesCount64(a[1]) + bits.OnesCount64(a[2]) + bits.OnesCount64(a[3])
}
func (a TS) list() []int {
	var l []int
	for k := 0; k < 256; k++ {
		if a.has(k) {
			l = append(l, k)
		}
	}
	return l
}

type st struct{ n, a TS }

func (x st) join(y st) st { return st{x.n.or(y.n), x.a.or(y.a)} }
func (x st) meet(t TS) st { return st{x.n.and(t), x.a.and(t)} }
func (x st) isBot() bool  { return x.n.isZero() && x.a.isZero() }
func (x st) anyA() TS {
	if x.isBot() {
		return TS{}
	}
	return tsAll
}
func (x st) widen() st { return st{x.n, x.anyA()} }

type jmp struct {
	l int
	s st
}

type res struct {
	norm, cont, retU, retT, retF st
	jumps                        []jmp
}

func (x res) joinX(y res, norm st) res {
	j := make([]jmp, 0, len(x.jumps)+len(y.jumps))
	j = append(j, x.jumps...)
	j = append(j, y.jumps...)
	return res{norm: norm, cont: x.cont.join(y.cont), retU: x.retU.join(y.retU), retT: x.retT.join(y.retT), retF: x.retF.join(y.retF), jumps: j}
}

func (x res) chans(skipT, skipF bool) []st {
	l := []st{x.norm, x.cont, x.retU}
	if !skipT {
		l = append(l, x.retT)
	}
	if !skipF {
		l = append(l, x.retF)
	}
	for _, j := range x.jumps {
		l = append(l, j.s)
	}
	return l
}

// callSiteHook, when set, is told every callee entered with the cursor possibly still at the reference point, and the
// kinds it can be entered with there (the N component of the state at the call).
var callSiteHook func(f int, n TS)

// noContracts makes every callF behave like `call 0` with no answer information (used to classify "by contracts").
var noContracts bool

func callSt(adv, rs TS, s st) st {
	return st{s.n.andNot(adv), s.anyA()}.meet(rs)
}

func goAna(c *cmd, s st) res {
	switch c.op {
	case "skip":
		return res{norm: s}
	case "next":
		return res{norm: st{s.n.and(tsOf(tokEOF)), s.anyA()}}
	case "assume":
		return res{norm: s.meet(c.set)}
	case "call":
		return res{norm: callSt(c.set, tsAll, s)}
	case "callF":
		if callSiteHook != nil && !s.n.isZero() {
			callSiteHook(c.f, s.n)
		}
		if noContracts {
			return res{norm: callSt(TS{}, tsAll, s)}
		}
		f := fnList[c.f]
		rs := tsAll
		switch c.v {
		case 1:
			rs = f.tset
		case 2:
			rs = f.fset
		}
		return res{norm: callSt(f.adv, rs, s)}
	case "seq":
		r := goAna(c.kids[0], s)
		for _, k := range c.kids[1:] {
			ry := goAna(k, r.norm)
			r = r.joinX(ry, ry.norm)
		}
		return r
	case "alt":
		r := goAna(c.kids[0], s)
		for _, k := range c.kids[1:] {
			ry := goAna(k, s)
			r = r.joinX(ry, r.norm.join(ry.norm))
		}
		return r
	case "cont":
		return res{cont: s}
	case "ret":
		switch c.v {
		case 1:
			return res{retT: s}
		case 2:
			return res{retF: s}
		}
		return res{retU: s}
	case "jump":
		return res{jumps: []jmp{{c.l, s}}}
	case "block":
		r := goAna(c.kids[0], s)
		var keep []jmp
		for _, j := range r.jumps {
			if j.l == c.l {
				r.norm = r.norm.join(j.s)
			} else {
				keep = append(keep, j)
			}
		}
		r.jumps = keep
		return r
	case "loop":
		r := goAna(c.kids[0], s.widen())
		r.norm, r.cont = st{}, st{}
		return r
	case "guard":
		r := goAna(c.kids[0], s)
		ra := goAna(c.kids[1], r.norm)
		rb := goAna(c.kids[2], st{a: r.norm.a})
		y := ra.joinX(rb, ra.norm.join(rb.norm))
		return r.joinX(y, y.norm)
	}
	panic("goAna: " + c.op)
}

func goLoopOK(c *cmd) bool {
	r := goAna(c, st{n: tsAll})
	return r.norm.n.isZero() && r.cont.n.isZero()
}

// proposeContracts iterates adv downwards / tset, fset upwards until nothing changes.
func proposeContracts() {
	for _, f := range fnList {
		f.adv, f.tset, f.fset = tsAll, TS{}, TS{}
	}
	for round := 0; round < 10000; round++ {
		changed := false
		for _, f := range fnList {
			r := goAna(f.body, st{n: tsAll})
			var stuck, t, fs TS
			for _, s := range r.chans(false, false) {
				stuck = stuck.or(s.n)
			}
			for _, s := range r.chans(false, true) {
				t = t.or(s.n).or(s.a)
			}
			for _, s := range r.chans(true, false) {
				fs = fs.or(s.n).or(s.a)
			}
			adv := f.adv.andNot(stuck)
			t = f.tset.or(t)
			fs = f.fset.or(fs)
			if adv != f.adv || t != f.tset || fs != f.fset {
				changed = true
				f.adv, f.tset, f.fset = adv, t, fs
			}
		}
		if !changed {
			return
		}
	}
}
