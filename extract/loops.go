package main

// loops.go — C02: progress skeletons of every function and every `for` statement of package parser.
//
// Output: DC/Gen/Loops.lean (data only: skeletons, proposed contracts, the loop inventory); the obligations over that
// data are stated and kernel-checked in DC/Props/C02.lean.  Nothing here is trusted for the
// *contracts* or the *certificates*: this file also contains a Go copy of the abstract interpreter `ana`
// (skelana.go) but only to PROPOSE contracts and to predict which loops certify; Lean re-runs its own `ana`
// on the emitted skeletons (`progOK`, `loopOK`) and a wrong proposal simply fails `lake build`.
//
// What IS trusted is the translation Go source -> skeleton.  Its soundness argument (the skeleton must
// OVER-approximate control flow and UNDER-approximate progress):
//
//  * State.  The only state the skeleton semantics has is the index of `p.current` in the stream of significant
//    tokens.  `p.current`, `p.peek`, `p.peekPeek` are assigned only in `nextToken` and `p.lexer` is used only in
//    `nextToken`/`New`/`ParseStatements (Err)`: emitted as `cursorSites` and checked to be exactly that list in
//    DC/Props/C02.lean, so no code can move the cursor back or sideways.  There are no closures, `defer`, `go`,
//    labelled break/continue or backward `goto` in the package; a function using any of them is emitted as
//    `call 0` ("untranslatable", no progress assumed, and every loop in it goes to the uncertified list).
//  * Every statement is translated compositionally; anything not understood becomes the effects of the calls it
//    contains (in Go's left-to-right evaluation order) followed by a nondeterministic choice of both branches.
//    A condition contributes an `assume S` only when it is literally a test of `p.current.Token` against
//    constant token kinds (`p.currentIs(token.X)`, `p.current.Token ==/!= token.X`, `p.current.Token.IsKeyword()`,
//    `switch p.current.Token { case … }`), combined with `!`, `&&`, `||` (short-circuit order respected, so the
//    effects of `p.expect(X)` inside conditions are placed exactly).  `p.peekIs(token.X)` / `p.peek.Token == token.X`
//    with X ≠ EOF, when true, contribute `assume ¬{EOF}`: EOF is sticky (lexer.go NextToken answers EOF again and
//    again once `l.eof || l.ch == 0`; New fills current/peek/peekPeek from the same lexer), so `current == EOF`
//    implies `peek == EOF`.  String comparisons, nil tests, counters: no assumption (both branches possible).
//  * `p.nextToken()` -> `next`; `p.expect(token.X)` -> alt (assume {X}; next) (assume ¬{X}); a call of a function of
//    package parser on the same receiver -> `callF f` (its body is the skeleton F_f; Lean checks the contract);
//    calls into other packages cannot reach the parser (no callbacks are passed; checked: an argument of type
//    *Parser or of function type makes it `call 0`) -> no effect; calls through function values -> `call 0`.
//  * `break` -> jump to the block around the innermost loop/switch/select; `continue` -> `cont` (or a jump to the
//    block around the body when the loop has a post statement with effects); `return` -> `ret`; forward `goto L`
//    -> jump to a block that ends where the label stands (the label must follow the goto in an enclosing
//    statement list, otherwise untranslatable).
//  * Position guards: `v := p.current.Pos` (or `v := &T{Position: p.current.Pos, …}` without calls) followed in
//    the SAME statement list by `if p.current.Pos ==/!= v[.Position] {A} else {B}` with no assignment to v (or
//    v.Position, and v not passed to a call) in between -> `guard c A B`.  This relies on distinct token indices
//    having distinct positions (C12/C13: offsets strictly increase; the final EOF is one token).
//  * Loop kinds.  `range` over slice/array/string/map/integer and `for i := a; i < b; i++` whose body neither
//    assigns `i` (nor takes its address) nor can change `b` are finite by construction ("by kind").  A
//    while-style data loop `for i < len(x) && … { … i++ … }` gets a skeleton over a *virtual* stream whose
//    index is `i` and whose EOF is `i >= len(x)` (`i++` -> next — which under-approximates, `next` does not
//    advance at EOF; every call -> skip since `i` is a local whose address is never taken; `x` must be stable).
//    All other loops get the token skeleton.

import (
	"encoding/json"
	"fmt"
	"go/ast"
	"go/constant"
	"go/token"
	"go/types"
	"os"
	"path/filepath"
	"sort"
	"strings"

	"golang.org/x/tools/go/packages"
)

// ---------- skeleton commands ----------

type cmd struct {
	op   string // skip next assume call callF seq alt cont ret jump block loop guard
	set  TS     // assume, call
	f    int    // callF
	v    int    // callF, ret: 0 unk, 1 tt, 2 ff
	l    int    // jump, block
	kids []*cmd // seq/alt: n; block, loop: 1; guard: 3
	name string // loop: name of the Lean definition holding kids[0]
	note string // comment
}

var cSkip = &cmd{op: "skip"}
var cNext = &cmd{op: "next"}
var cCont = &cmd{op: "cont"}

func cAssume(s TS) *cmd {
	if s == tsAll {
		return cSkip
	}
	return &cmd{op: "assume", set: s}
}
func cDead() *cmd        { return &cmd{op: "assume"} }
func isDead(c *cmd) bool { return c.op == "assume" && c.set.isZero() }
func cCall(adv TS) *cmd  { return &cmd{op: "call", set: adv} }
func cCallF(f, v int) *cmd {
	return &cmd{op: "callF", f: f, v: v}
}
func cRet(v int) *cmd  { return &cmd{op: "ret", v: v} }
func cJump(l int) *cmd { return &cmd{op: "jump", l: l} }
func cBlock(l int, c *cmd) *cmd {
	return &cmd{op: "block", l: l, kids: []*cmd{c}}
}
func cGuard(c, a, b *cmd) *cmd { return &cmd{op: "guard", kids: []*cmd{c, a, b}} }

// endsAbruptly: the command never ends normally (syntactically)
func endsAbruptly(c *cmd) bool {
	switch c.op {
	case "cont", "ret", "jump":
		return true
	case "assume":
		return c.set.isZero()
	case "seq":
		return len(c.kids) > 0 && endsAbruptly(c.kids[len(c.kids)-1])
	case "alt":
		for _, k := range c.kids {
			if !endsAbruptly(k) {
				return false
			}
		}
		return true
	case "loop":
		return true
	}
	return false
}

func cSeq(list ...*cmd) *cmd {
	var out []*cmd
	for _, c := range list {
		if c == nil || c.op == "skip" {
			continue
		}
		if c.op == "seq" {
			out = append(out, c.kids...)
		} else {
			out = append(out, c)
		}
		if endsAbruptly(out[len(out)-1]) {
			break
		}
	}
	// cut after the first abrupt element (flattened seqs may contain one inside)
	for i, c := range out {
		if endsAbruptly(c) {
			out = out[:i+1]
			break
		}
	}
	for _, c := range out {
		if isDead(c) {
			return cDead()
		}
	}
	switch len(out) {
	case 0:
		return cSkip
	case 1:
		return out[0]
	}
	return &cmd{op: "seq", kids: out}
}

func cAlt(list ...*cmd) *cmd {
	var out []*cmd
	seenSkip := false
	for _, c := range list {
		if c == nil || isDead(c) {
			continue
		}
		if c.op == "skip" {
			if seenSkip {
				continue
			}
			seenSkip = true
		}
		if c.op == "alt" {
			out = append(out, c.kids...)
		} else {
			out = append(out, c)
		}
	}
	switch len(out) {
	case 0:
		return cDead()
	case 1:
		return out[0]
	}
	return &cmd{op: "alt", kids: out}
}

func hasEffect(c *cmd) bool { return c != nil && c.op != "skip" }

// ---------- rendering to Lean ----------

func tsLean(s TS) string {
	if s.isZero() {
		return "0"
	}
	if s == tsAll {
		return "ALL"
	}
	in := s.list()
	out := tsAll.andNot(s).list()
	f := func(l []int) string {
		var sb strings.Builder
		sb.WriteByte('[')
		for i, k := range l {
			if i > 0 {
				sb.WriteString(", ")
			}
			fmt.Fprintf(&sb, "%d", k)
		}
		sb.WriteByte(']')
		return sb.String()
	}
	if len(in) <= len(out) {
		return "(mk " + f(in) + ")"
	}
	return "(co " + f(out) + ")"
}

func tsNames(s TS) string {
	neg := false
	l := s.list()
	if len(l) > tokK/2 {
		neg = true
		l = tsAll.andNot(s).list()
	}
	var names []string
	for _, k := range l {
		names = append(names, tokName[k])
	}
	if neg {
		return "¬{" + strings.Join(names, ",") + "}"
	}
	return "{" + strings.Join(names, ",") + "}"
}

var rvLean = []string{".unk", ".tt", ".ff"}

func (c *cmd) lean(sb *strings.Builder, ind int) {
	pad := strings.Repeat(" ", ind)
	switch c.op {
	case "skip":
		sb.WriteString(".skip")
	case "next":
		sb.WriteString(".next")
	case "cont":
		sb.WriteString(".cont")
	case "assume":
		fmt.Fprintf(sb, ".assume %s", tsLean(c.set))
	case "call":
		fmt.Fprintf(sb, ".call %s", tsLean(c.set))
	case "callF":
		fmt.Fprintf(sb, ".callF %d %s", c.f, rvLean[c.v])
	case "ret":
		fmt.Fprintf(sb, ".ret %s", rvLean[c.v])
	case "jump":
		fmt.Fprintf(sb, ".jump %d", c.l)
	case "block":
		fmt.Fprintf(sb, ".block %d (", c.l)
		c.kids[0].lean(sb, ind)
		sb.WriteString(")")
	case "loop":
		if c.name != "" {
			fmt.Fprintf(sb, ".loop %s", c.name)
		} else {
			sb.WriteString(".loop (")
			c.kids[0].lean(sb, ind)
			sb.WriteString(")")
		}
	case "guard":
		sb.WriteString(".guard (")
		c.kids[0].lean(sb, ind+2)
		sb.WriteString(")\n" + pad + "  (")
		c.kids[1].lean(sb, ind+2)
		sb.WriteString(")\n" + pad + "  (")
		c.kids[2].lean(sb, ind+2)
		sb.WriteString(")")
	case "seq", "alt":
		if c.op == "seq" {
			sb.WriteString("seqs [")
		} else {
			sb.WriteString("alts [")
		}
		for i, k := range c.kids {
			if i > 0 {
				sb.WriteString(",")
			}
			sb.WriteString("\n" + pad + "  ")
			k.lean(sb, ind+2)
		}
		sb.WriteString("]")
	default:
		panic("cmd op " + c.op)
	}
}

func (c *cmd) String() string {
	var sb strings.Builder
	c.lean(&sb, 0)
	return sb.String()
}

// ---------- inventory ----------

type loopRec struct {
	Pos     string `json:"pos"`
	Func    string `json:"func"`
	Ord     int    `json:"ord"`  // n-th `for` of the function in source order
	Kind    string `json:"kind"` // range counted token counter untranslated
	Cond    string `json:"cond"`
	S       string `json:"S"`
	OK      bool   `json:"certified"`
	How     string `json:"how"` // kind / skeleton / contracts / assumed
	Reason  string `json:"reason,omitempty"`
	name    string
	body    *cmd // head test + body (token mode)
	cbody   *cmd // counter-mode certificate, if used
	set     TS
	node    ast.Stmt
	fn      *fnRec
	srcPos  token.Pos
	usesCtr bool
	condT   *cmd
}

type fnRec struct {
	idx     int
	name    string
	pos     string
	obj     *types.Func
	decl    *ast.FuncDecl
	body    *cmd
	bad     string
	boolRet bool
	adv     TS
	tset    TS
	fset    TS
	loops   []*loopRec
}

var (
	tokK        int
	tokName     []string
	tokEOF      int
	kwSet       TS
	tsAll       TS
	parserPkg   *packages.Package
	fnIndex     map[*types.Func]*fnRec
	fnList      []*fnRec
	allLoops    []*loopRec
	loopDefs    []*loopRec // in completion order (inner before outer)
	cursorSites []Site
	fnRank      [][]int // [f][kind]: rank in the non-advancing call graph of that kind; nil if some such graph has a cycle
)

// ---------- translation context ----------

type target struct {
	isLoop    bool
	brkLabel  int
	contLabel int // -1: plain `cont`
	brkUsed   bool
	contUsed  bool
}

type fnCtx struct {
	info    *types.Info
	fn      *fnRec
	self    types.Object
	labelN  int
	targets []*target
	gotoLbl map[string]int // label name -> block label, while the block is open
	bad     string
	// counter mode
	cv     types.Object
	cbound string
	quiet  bool // do not register loops (counter-mode retranslation)
	ord    int
}

func (x *fnCtx) newLabel() int { x.labelN++; return x.labelN }
func (x *fnCtx) setBad(why string, at token.Pos) {
	if x.bad == "" {
		x.bad = fmt.Sprintf("%s at %s", why, pos(at))
	}
}

func isParserPtr(t types.Type) bool {
	if t == nil {
		return false
	}
	if p, ok := t.(*types.Pointer); ok {
		t = p.Elem()
	}
	n, ok := t.(*types.Named)
	return ok && n.Obj().Name() == "Parser" && n.Obj().Pkg() != nil && n.Obj().Pkg() == parserPkg.Types
}

func isTokenType(t types.Type) bool {
	n, ok := t.(*types.Named)
	return ok && n.Obj().Name() == "Token" && n.Obj().Pkg() != nil && strings.HasSuffix(n.Obj().Pkg().Path(), "/token")
}

// isSelf reports whether e denotes the function's own parser object.
func (x *fnCtx) isSelf(e ast.Expr) bool {
	e = ast.Unparen(e)
	id, ok := e.(*ast.Ident)
	return ok && x.self != nil && x.info.ObjectOf(id) == x.self
}

// isCurField reports whether e is `p.current.<field>`.
func (x *fnCtx) isCurField(e ast.Expr, field string) bool { return x.isItemField(e, "current", field) }

// isItemField reports whether e is `p.<item>.<field>`.
func (x *fnCtx) isItemField(e ast.Expr, item, field string) bool {
	se, ok := ast.Unparen(e).(*ast.SelectorExpr)
	if !ok || se.Sel.Name != field {
		return false
	}
	in, ok := ast.Unparen(se.X).(*ast.SelectorExpr)
	return ok && in.Sel.Name == item && x.isSelf(in.X)
}

func (x *fnCtx) tokConst(e ast.Expr) (int, bool) {
	tv, ok := x.info.Types[e]
	if !ok || tv.Value == nil || !isTokenType(tv.Type) {
		return 0, false
	}
	v, ok := constant.Int64Val(constant.ToInt(tv.Value))
	if !ok || v < 0 || int(v) >= tokK {
		return 0, false
	}
	return int(v), true
}

// callee resolves the statically called function, if any.
func (x *fnCtx) callee(call *ast.CallExpr) *types.Func {
	var id *ast.Ident
	switch f := ast.Unparen(call.Fun).(type) {
	case *ast.Ident:
		id = f
	case *ast.SelectorExpr:
		id = f.Sel
	case *ast.IndexExpr: // generic instantiation
		switch g := ast.Unparen(f.X).(type) {
		case *ast.Ident:
			id = g
		case *ast.SelectorExpr:
			id = g.Sel
		}
	}
	if id == nil {
		return nil
	}
	fn, _ := x.info.Uses[id].(*types.Func)
	return fn
}

// trCall translates the call itself (receiver and arguments already done).
func (x *fnCtx) trCall(call *ast.CallExpr) *cmd {
	// conversions and builtins
	if tv, ok := x.info.Types[call.Fun]; ok && (tv.IsType() || tv.IsBuiltin()) {
		if id, ok := ast.Unparen(call.Fun).(*ast.Ident); ok && id.Name == "panic" {
			return cDead()
		}
		return cSkip
	}
	if x.cv != nil { // counter mode: the counter is a local whose address is never taken; no call can change it
		return cSkip
	}
	fn := x.callee(call)
	passesParserOrFunc := func() (other bool, cb bool) {
		for _, a := range call.Args {
			t := x.info.TypeOf(a)
			if isParserPtr(t) && !x.isSelf(a) {
				other = true
			}
			if t != nil {
				if _, ok := t.Underlying().(*types.Signature); ok {
					cb = true
				}
			}
		}
		return
	}
	if fn == nil { // call through a function value / field
		return cCall(TS{})
	}
	sig := fn.Type().(*types.Signature)
	if fn.Pkg() == nil || fn.Pkg() != parserPkg.Types {
		// another package: cannot reach the parser unless it is handed the parser or a callback
		other, cb := passesParserOrFunc()
		selfArg := false
		for _, a := range call.Args {
			if x.isSelf(a) {
				selfArg = true
			}
		}
		if other || cb || selfArg {
			return cCall(TS{})
		}
		return cSkip
	}
	// package parser
	if sig.Recv() != nil && isParserPtr(sig.Recv().Type()) {
		se, ok := ast.Unparen(call.Fun).(*ast.SelectorExpr)
		if !ok || !x.isSelf(se.X) {
			return cCall(TS{}) // method value or a different parser object
		}
		switch fn.Name() {
		case "nextToken":
			return cNext
		case "currentIs", "peekIs", "peekPeekIs":
			return cSkip
		case "expect":
			if len(call.Args) == 1 {
				if k, ok := x.tokConst(call.Args[0]); ok {
					return cAlt(cSeq(cAssume(tsOf(k)), cNext), cAssume(tsAll.andNot(tsOf(k))))
				}
			}
			return cAlt(cNext, cSkip)
		}
	} else {
		if other, _ := passesParserOrFunc(); other {
			return cCall(TS{})
		}
	}
	if r, ok := fnIndex[fn]; ok {
		return cCallF(r.idx, 0)
	}
	return cCall(TS{}) // no body available (verif_*.go)
}

// effects translates the evaluation of an expression whose value is not used as a branch condition.
func (x *fnCtx) effects(e ast.Expr) *cmd {
	switch e := e.(type) {
	case nil:
		return cSkip
	case *ast.Ident, *ast.BasicLit:
		return cSkip
	case *ast.ParenExpr:
		return x.effects(e.X)
	case *ast.SelectorExpr:
		return x.effects(e.X)
	case *ast.StarExpr:
		return x.effects(e.X)
	case *ast.UnaryExpr:
		if e.Op == token.AND && x.cv != nil {
			if id, ok := ast.Unparen(e.X).(*ast.Ident); ok && x.info.ObjectOf(id) == x.cv {
				x.setBad("address of the counter taken", e.Pos())
			}
		}
		return x.effects(e.X)
	case *ast.TypeAssertExpr:
		return x.effects(e.X)
	case *ast.IndexExpr:
		return cSeq(x.effects(e.X), x.effects(e.Index))
	case *ast.IndexListExpr:
		return x.effects(e.X)
	case *ast.SliceExpr:
		return cSeq(x.effects(e.X), x.effects(e.Low), x.effects(e.High), x.effects(e.Max))
	case *ast.KeyValueExpr:
		return cSeq(x.effects(e.Key), x.effects(e.Value))
	case *ast.CompositeLit:
		var l []*cmd
		for _, el := range e.Elts {
			l = append(l, x.effects(el))
		}
		return cSeq(l...)
	case *ast.BinaryExpr:
		if e.Op == token.LAND || e.Op == token.LOR {
			t, f := x.trCond(e)
			if !hasEffect(t) && !hasEffect(f) {
				return cSkip
			}
			// only the effects matter here, not the assumptions; keep both outcomes
			return cAlt(t, f)
		}
		return cSeq(x.effects(e.X), x.effects(e.Y))
	case *ast.CallExpr:
		var l []*cmd
		switch f := ast.Unparen(e.Fun).(type) {
		case *ast.SelectorExpr:
			l = append(l, x.effects(f.X))
		case *ast.Ident:
		default:
			l = append(l, x.effects(e.Fun))
		}
		for _, a := range e.Args {
			l = append(l, x.effects(a))
		}
		l = append(l, x.trCall(e))
		return cSeq(l...)
	case *ast.FuncLit:
		x.setBad("function literal", e.Pos())
		return cCall(TS{})
	case *ast.ArrayType, *ast.MapType, *ast.StructType, *ast.FuncType, *ast.InterfaceType, *ast.ChanType, *ast.Ellipsis:
		return cSkip
	}
	x.setBad(fmt.Sprintf("expression %T", e), e.Pos())
	return cCall(TS{})
}

// trCond translates a branch condition into (command when true, command when false).
func (x *fnCtx) trCond(e ast.Expr) (*cmd, *cmd) {
	if e == nil {
		return cSkip, cDead()
	}
	switch c := e.(type) {
	case *ast.ParenExpr:
		return x.trCond(c.X)
	case *ast.Ident:
		if tv, ok := x.info.Types[c]; ok && tv.Value != nil && tv.Value.Kind() == constant.Bool {
			if constant.BoolVal(tv.Value) {
				return cSkip, cDead()
			}
			return cDead(), cSkip
		}
	case *ast.UnaryExpr:
		if c.Op == token.NOT {
			t, f := x.trCond(c.X)
			return f, t
		}
	case *ast.BinaryExpr:
		switch c.Op {
		case token.LAND:
			at, af := x.trCond(c.X)
			bt, bf := x.trCond(c.Y)
			return cSeq(at, bt), cAlt(af, cSeq(at, bf))
		case token.LOR:
			at, af := x.trCond(c.X)
			bt, bf := x.trCond(c.Y)
			return cAlt(at, cSeq(af, bt)), cSeq(af, bf)
		case token.EQL, token.NEQ:
			if x.cv == nil {
				var other ast.Expr
				if x.isCurField(c.X, "Token") {
					other = c.Y
				} else if x.isCurField(c.Y, "Token") {
					other = c.X
				}
				if other != nil {
					if k, ok := x.tokConst(other); ok {
						in, out := cAssume(tsOf(k)), cAssume(tsAll.andNot(tsOf(k)))
						if c.Op == token.EQL {
							return in, out
						}
						return out, in
					}
				}
				// p.peek.Token == token.X (X ≠ EOF) implies p.current is not EOF (EOF is sticky)
				other = nil
				if x.isItemField(c.X, "peek", "Token") {
					other = c.Y
				} else if x.isItemField(c.Y, "peek", "Token") {
					other = c.X
				}
				if other != nil {
					if k, ok := x.tokConst(other); ok && k != tokEOF {
						if c.Op == token.EQL {
							return cAssume(tsAll.andNot(tsOf(tokEOF))), cSkip
						}
						return cSkip, cAssume(tsAll.andNot(tsOf(tokEOF)))
					}
				}
			}
		case token.LSS:
			if x.cv != nil {
				if id, ok := ast.Unparen(c.X).(*ast.Ident); ok && x.info.ObjectOf(id) == x.cv && types.ExprString(c.Y) == x.cbound {
					return cAssume(tsAll.andNot(tsOf(tokEOF))), cAssume(tsOf(tokEOF))
				}
			}
		}
	case *ast.CallExpr:
		if x.cv == nil {
			if fn := x.callee(c); fn != nil {
				if se, ok := ast.Unparen(c.Fun).(*ast.SelectorExpr); ok {
					sig := fn.Type().(*types.Signature)
					// p.currentIs(token.X), p.expect(token.X)
					if fn.Pkg() == parserPkg.Types && sig.Recv() != nil && isParserPtr(sig.Recv().Type()) && x.isSelf(se.X) && len(c.Args) == 1 {
						if k, ok := x.tokConst(c.Args[0]); ok {
							switch fn.Name() {
							case "peekIs":
								// EOF is sticky: if p.current were EOF, p.peek would be EOF too
								if k != tokEOF {
									return cAssume(tsAll.andNot(tsOf(tokEOF))), cSkip
								}
							case "currentIs":
								return cAssume(tsOf(k)), cAssume(tsAll.andNot(tsOf(k)))
							case "expect":
								return cSeq(cAssume(tsOf(k)), cNext), cAssume(tsAll.andNot(tsOf(k)))
							}
						}
					}
					// p.current.Token.IsKeyword()
					if fn.Name() == "IsKeyword" && sig.Recv() != nil && isTokenType(sig.Recv().Type()) && x.isCurField(se.X, "Token") && len(c.Args) == 0 {
						return cAssume(kwSet), cAssume(tsAll.andNot(kwSet))
					}
				}
				// Boolean helper of package parser on the same parser: use its answer contract
				if r, ok := fnIndex[fn]; ok && r.boolRet {
					eff := x.effects(c)
					// effects(c) ends with the callF of this very call; replace it by the two answers
					if cf := lastCallF(eff, r.idx); cf != nil {
						t := replaceLast(eff, cf, cCallF(r.idx, 1))
						f := replaceLast(eff, cf, cCallF(r.idx, 2))
						return t, f
					}
					return eff, eff
				}
			}
		}
	}
	eff := x.effects(e)
	return eff, eff
}

func lastCallF(c *cmd, idx int) *cmd {
	if c.op == "callF" && c.f == idx && c.v == 0 {
		return c
	}
	if c.op == "seq" {
		return lastCallF(c.kids[len(c.kids)-1], idx)
	}
	return nil
}

func replaceLast(c, old, new *cmd) *cmd {
	if c == old {
		return new
	}
	if c.op == "seq" {
		k := append([]*cmd{}, c.kids...)
		k[len(k)-1] = replaceLast(k[len(k)-1], old, new)
		return &cmd{op: "seq", kids: k}
	}
	return c
}

// ---------- statements ----------

func (x *fnCtx) trBlock(b *ast.BlockStmt) *cmd {
	if b == nil {
		return cSkip
	}
	return x.trList(b.List)
}

// markOf recognises the mark expression of a position test `p.current.Pos ==/!= E`.
// Returns the variable and the field ("" for a plain variable).
func (x *fnCtx) posTest(s ast.Stmt) (is *ast.IfStmt, v types.Object, field string, eq bool) {
	is, ok := s.(*ast.IfStmt)
	if !ok || is.Init != nil {
		return nil, nil, "", false
	}
	be, ok := ast.Unparen(is.Cond).(*ast.BinaryExpr)
	if !ok || (be.Op != token.EQL && be.Op != token.NEQ) {
		return nil, nil, "", false
	}
	var other ast.Expr
	if x.isCurField(be.X, "Pos") {
		other = be.Y
	} else if x.isCurField(be.Y, "Pos") {
		other = be.X
	} else {
		return nil, nil, "", false
	}
	switch o := ast.Unparen(other).(type) {
	case *ast.Ident:
		return is, x.info.ObjectOf(o), "", be.Op == token.EQL
	case *ast.SelectorExpr:
		if id, ok := ast.Unparen(o.X).(*ast.Ident); ok {
			return is, x.info.ObjectOf(id), o.Sel.Name, be.Op == token.EQL
		}
	}
	return nil, nil, "", false
}

// isMarkDef: `v := p.current.Pos` / `v = p.current.Pos` / `v := &T{field: p.current.Pos, …}` (no calls).
func (x *fnCtx) isMarkDef(s ast.Stmt, v types.Object, field string) bool {
	as, ok := s.(*ast.AssignStmt)
	if !ok || len(as.Lhs) != 1 || len(as.Rhs) != 1 || (as.Tok != token.DEFINE && as.Tok != token.ASSIGN) {
		return false
	}
	id, ok := as.Lhs[0].(*ast.Ident)
	if !ok || x.info.ObjectOf(id) != v {
		return false
	}
	rhs := ast.Unparen(as.Rhs[0])
	if field == "" {
		return x.isCurField(rhs, "Pos")
	}
	if u, ok := rhs.(*ast.UnaryExpr); ok && u.Op == token.AND {
		rhs = ast.Unparen(u.X)
	}
	cl, ok := rhs.(*ast.CompositeLit)
	if !ok {
		return false
	}
	found := false
	for _, el := range cl.Elts {
		kv, ok := el.(*ast.KeyValueExpr)
		if !ok {
			return false
		}
		if k, ok := kv.Key.(*ast.Ident); ok && k.Name == field {
			if !x.isCurField(kv.Value, "Pos") {
				return false
			}
			found = true
		}
	}
	if !found {
		return false
	}
	// no effects anywhere in the literal
	save := x.bad
	eff := x.effects(cl)
	x.bad = save
	return !hasEffect(eff)
}

// markStable: between the definition and the test nothing can change v (or v.field).
func (x *fnCtx) markStable(list []ast.Stmt, v types.Object, field string) bool {
	okk := true
	for _, s := range list {
		ast.Inspect(s, func(n ast.Node) bool {
			switch n := n.(type) {
			case *ast.LabeledStmt:
				okk = false
			case *ast.AssignStmt:
				for _, l := range n.Lhs {
					if x.touches(l, v, field) {
						okk = false
					}
				}
			case *ast.IncDecStmt:
				if x.touches(n.X, v, field) {
					okk = false
				}
			case *ast.RangeStmt:
				if n.Key != nil && x.touches(n.Key, v, field) || n.Value != nil && x.touches(n.Value, v, field) {
					okk = false
				}
			case *ast.UnaryExpr:
				if n.Op == token.AND {
					if id, _ := rootIdent(n.X); id != nil && x.info.ObjectOf(id) == v {
						okk = false
					}
				}
			case *ast.CallExpr:
				if field != "" { // v is (a pointer to) a struct: a callee receiving it could write the field
					for _, a := range n.Args {
						if id, _ := rootIdent(a); id != nil && x.info.ObjectOf(id) == v {
							okk = false
						}
					}
					if se, ok := n.Fun.(*ast.SelectorExpr); ok {
						if id, _ := rootIdent(se.X); id != nil && x.info.ObjectOf(id) == v {
							okk = false
						}
					}
				}
			}
			return okk
		})
	}
	return okk
}

// touches: the assignment target l is v itself, or v.field (or something containing it).
func (x *fnCtx) touches(l ast.Expr, v types.Object, field string) bool {
	l = ast.Unparen(l)
	if id, ok := l.(*ast.Ident); ok {
		return x.info.ObjectOf(id) == v
	}
	if field == "" {
		return false
	}
	id, _ := rootIdent(l)
	if id == nil || x.info.ObjectOf(id) != v {
		return false
	}
	// v.<something>: only v.field (or *v = …) matters
	switch s := l.(type) {
	case *ast.SelectorExpr:
		if inner, ok := ast.Unparen(s.X).(*ast.Ident); ok && x.info.ObjectOf(inner) == v {
			return s.Sel.Name == field
		}
		// deeper path v.a.b: touches v.field only if a == field
		p := s
		for {
			in, ok := ast.Unparen(p.X).(*ast.SelectorExpr)
			if !ok {
				break
			}
			p = in
		}
		return p.Sel.Name == field
	case *ast.StarExpr:
		return true
	}
	return true
}

func (x *fnCtx) trList(list []ast.Stmt) *cmd {
	// forward goto: a labelled statement at index k closes a block opened at the start of this list
	for k, s := range list {
		if ls, ok := s.(*ast.LabeledStmt); ok {
			if x.gotoLbl == nil {
				x.gotoLbl = map[string]int{}
			}
			l := x.newLabel()
			x.gotoLbl[ls.Label.Name] = l
			before := x.trList(list[:k])
			delete(x.gotoLbl, ls.Label.Name)
			rest := append([]ast.Stmt{ls.Stmt}, list[k+1:]...)
			return cSeq(cBlock(l, before), x.trList(rest))
		}
	}
	// position guard
	if x.cv == nil {
		for i, s := range list {
			is, v, field, eq := x.posTest(s)
			if is == nil || v == nil {
				continue
			}
			for k := i - 1; k >= 0; k-- {
				if !x.isMarkDef(list[k], v, field) {
					continue
				}
				if !x.markStable(list[k+1:i], v, field) {
					break
				}
				pre := x.trList(list[:k])
				c := x.trList(list[k+1 : i])
				a, b := x.trBlock(is.Body), x.trElse(is.Else)
				if !eq {
					a, b = b, a
				}
				rest := x.trList(list[i+1:])
				return cSeq(pre, cGuard(c, a, b), rest)
			}
		}
	}
	var out []*cmd
	for _, s := range list {
		out = append(out, x.trStmt(s))
	}
	return cSeq(out...)
}

func (x *fnCtx) trElse(s ast.Stmt) *cmd {
	if s == nil {
		return cSkip
	}
	return x.trStmt(s)
}

func (x *fnCtx) innermost(loopOnly bool) *target {
	for i := len(x.targets) - 1; i >= 0; i-- {
		if !loopOnly || x.targets[i].isLoop {
			return x.targets[i]
		}
	}
	return nil
}

func (x *fnCtx) trStmt(s ast.Stmt) *cmd {
	switch s := s.(type) {
	case nil, *ast.EmptyStmt:
		return cSkip
	case *ast.BlockStmt:
		return x.trBlock(s)
	case *ast.ExprStmt:
		return x.effects(s.X)
	case *ast.DeclStmt:
		var l []*cmd
		if gd, ok := s.Decl.(*ast.GenDecl); ok {
			for _, sp := range gd.Specs {
				if vs, ok := sp.(*ast.ValueSpec); ok {
					for _, v := range vs.Values {
						l = append(l, x.effects(v))
					}
				}
			}
		}
		return cSeq(l...)
	case *ast.AssignStmt:
		var l []*cmd
		for _, e := range s.Lhs {
			l = append(l, x.effects(e))
		}
		for _, e := range s.Rhs {
			l = append(l, x.effects(e))
		}
		if x.cv != nil {
			for _, e := range s.Lhs {
				if id, ok := ast.Unparen(e).(*ast.Ident); ok && x.info.ObjectOf(id) == x.cv {
					inc := false
					if s.Tok == token.ADD_ASSIGN && len(s.Rhs) == 1 {
						if v, ok := constInt(x.info, s.Rhs[0]); ok && v > 0 {
							inc = true
						}
					}
					if inc {
						l = append(l, cNext)
					} else {
						x.setBad("counter assigned", s.Pos())
					}
				}
			}
		}
		return cSeq(l...)
	case *ast.IncDecStmt:
		if x.cv != nil {
			if id, ok := ast.Unparen(s.X).(*ast.Ident); ok && x.info.ObjectOf(id) == x.cv {
				if s.Tok == token.INC {
					return cNext
				}
				x.setBad("counter decremented", s.Pos())
			}
		}
		return x.effects(s.X)
	case *ast.SendStmt:
		return cSeq(x.effects(s.Chan), x.effects(s.Value))
	case *ast.ReturnStmt:
		if x.fn != nil && x.fn.boolRet && len(s.Results) == 1 && x.cv == nil {
			t, f := x.trCond(s.Results[0])
			return cAlt(cSeq(t, cRet(1)), cSeq(f, cRet(2)))
		}
		var l []*cmd
		for _, e := range s.Results {
			l = append(l, x.effects(e))
		}
		l = append(l, cRet(0))
		return cSeq(l...)
	case *ast.IfStmt:
		t, f := x.trCond(s.Cond)
		return cSeq(x.trStmt(s.Init), cAlt(cSeq(t, x.trBlock(s.Body)), cSeq(f, x.trElse(s.Else))))
	case *ast.SwitchStmt:
		return x.trSwitch(s)
	case *ast.TypeSwitchStmt:
		tg := &target{brkLabel: x.newLabel(), contLabel: -1}
		x.targets = append(x.targets, tg)
		var pre []*cmd
		pre = append(pre, x.trStmt(s.Init))
		switch a := s.Assign.(type) {
		case *ast.AssignStmt:
			for _, e := range a.Rhs {
				pre = append(pre, x.effects(e))
			}
		case *ast.ExprStmt:
			pre = append(pre, x.effects(a.X))
		}
		var arms []*cmd
		hasDefault := false
		for _, cc := range s.Body.List {
			cl := cc.(*ast.CaseClause)
			if cl.List == nil {
				hasDefault = true
			}
			arms = append(arms, x.trList(cl.Body))
		}
		if !hasDefault {
			arms = append(arms, cSkip)
		}
		x.targets = x.targets[:len(x.targets)-1]
		body := cAlt(arms...)
		if tg.brkUsed {
			body = cBlock(tg.brkLabel, body)
		}
		return cSeq(cSeq(pre...), body)
	case *ast.SelectStmt:
		tg := &target{brkLabel: x.newLabel(), contLabel: -1}
		x.targets = append(x.targets, tg)
		var arms []*cmd
		for _, cc := range s.Body.List {
			cl := cc.(*ast.CommClause)
			arms = append(arms, cSeq(x.trStmt(cl.Comm), x.trList(cl.Body)))
		}
		x.targets = x.targets[:len(x.targets)-1]
		body := cAlt(arms...)
		if tg.brkUsed {
			body = cBlock(tg.brkLabel, body)
		}
		return body
	case *ast.ForStmt:
		return x.trFor(s)
	case *ast.RangeStmt:
		return x.trRange(s)
	case *ast.BranchStmt:
		switch s.Tok {
		case token.BREAK:
			if s.Label != nil {
				x.setBad("labelled break", s.Pos())
				return cCall(TS{})
			}
			t := x.innermost(false)
			if t == nil {
				x.setBad("break outside", s.Pos())
				return cCall(TS{})
			}
			t.brkUsed = true
			return cJump(t.brkLabel)
		case token.CONTINUE:
			if s.Label != nil {
				x.setBad("labelled continue", s.Pos())
				return cCall(TS{})
			}
			t := x.innermost(true)
			if t == nil {
				x.setBad("continue outside", s.Pos())
				return cCall(TS{})
			}
			if t.contLabel >= 0 {
				t.contUsed = true
				return cJump(t.contLabel)
			}
			return cCont
		case token.GOTO:
			if l, ok := x.gotoLbl[s.Label.Name]; ok {
				return cJump(l)
			}
			x.setBad("goto that is not a forward jump within an enclosing statement list", s.Pos())
			return cCall(TS{})
		case token.FALLTHROUGH:
			x.setBad("fallthrough", s.Pos())
			return cCall(TS{})
		}
	case *ast.LabeledStmt:
		// reached only when the label is not in a statement list handled by trList
		x.setBad("label", s.Pos())
		return x.trStmt(s.Stmt)
	case *ast.GoStmt:
		x.setBad("go statement", s.Pos())
		return cCall(TS{})
	case *ast.DeferStmt:
		x.setBad("defer", s.Pos())
		return cCall(TS{})
	}
	x.setBad(fmt.Sprintf("statement %T", s), s.Pos())
	return cCall(TS{})
}

func (x *fnCtx) trSwitch(s *ast.SwitchStmt) *cmd {
	tg := &target{brkLabel: x.newLabel(), contLabel: -1}
	x.targets = append(x.targets, tg)
	pre := x.trStmt(s.Init)
	var body *cmd
	clauses := make([]*ast.CaseClause, 0, len(s.Body.List))
	for _, cc := range s.Body.List {
		clauses = append(clauses, cc.(*ast.CaseClause))
	}
	tokenSwitch := s.Tag != nil && x.cv == nil && x.isCurField(s.Tag, "Token")
	if tokenSwitch {
		for _, cl := range clauses {
			for _, e := range cl.List {
				if _, ok := x.tokConst(e); !ok {
					tokenSwitch = false
				}
			}
		}
	}
	switch {
	case tokenSwitch:
		var arms []*cmd
		var seen TS
		var def *ast.CaseClause
		for _, cl := range clauses {
			if cl.List == nil {
				def = cl
				continue
			}
			var set TS
			for _, e := range cl.List {
				k, _ := x.tokConst(e)
				set = set.or(tsOf(k))
			}
			seen = seen.or(set)
			arms = append(arms, cSeq(cAssume(set), x.trList(cl.Body)))
		}
		rest := tsAll.andNot(seen)
		if def != nil {
			arms = append(arms, cSeq(cAssume(rest), x.trList(def.Body)))
		} else {
			arms = append(arms, cAssume(rest))
		}
		body = cAlt(arms...)
	case s.Tag == nil:
		// if/else-if chain in clause order; `default` runs when all tests failed, wherever it stands
		var arms []*cmd
		var fails []*cmd
		var def *ast.CaseClause
		for _, cl := range clauses {
			if cl.List == nil {
				def = cl
				continue
			}
			var cond ast.Expr
			for _, e := range cl.List {
				if cond == nil {
					cond = e
				} else {
					cond = &ast.BinaryExpr{X: cond, Op: token.LOR, Y: e}
				}
			}
			t, f := x.trCondSynth(cond)
			arms = append(arms, cSeq(cSeq(fails...), t, x.trList(cl.Body)))
			fails = append(fails, f)
		}
		if def != nil {
			arms = append(arms, cSeq(cSeq(fails...), x.trList(def.Body)))
		} else {
			arms = append(arms, cSeq(fails...))
		}
		body = cAlt(arms...)
	default:
		// a switch on some other value: effects of the tag, then any arm
		pre = cSeq(pre, x.effects(s.Tag))
		var arms []*cmd
		hasDefault := false
		var caseEff []*cmd
		for _, cl := range clauses {
			if cl.List == nil {
				hasDefault = true
			}
			for _, e := range cl.List {
				if ce := x.effects(e); hasEffect(ce) {
					caseEff = append(caseEff, cAlt(ce, cSkip))
				}
			}
			arms = append(arms, x.trList(cl.Body))
		}
		if !hasDefault {
			arms = append(arms, cSkip)
		}
		body = cSeq(cSeq(caseEff...), cAlt(arms...))
	}
	x.targets = x.targets[:len(x.targets)-1]
	if tg.brkUsed {
		body = cBlock(tg.brkLabel, body)
	}
	return cSeq(pre, body)
}

// trCondSynth handles conditions that may contain synthesized `||` nodes (no type info for those).
func (x *fnCtx) trCondSynth(e ast.Expr) (*cmd, *cmd) {
	if be, ok := e.(*ast.BinaryExpr); ok && be.Op == token.LOR && !be.OpPos.IsValid() {
		at, af := x.trCondSynth(be.X)
		bt, bf := x.trCond(be.Y)
		return cAlt(at, cSeq(af, bt)), cSeq(af, bf)
	}
	return x.trCond(e)
}

func srcOf(n ast.Node) string {
	if n == nil {
		return ""
	}
	switch e := n.(type) {
	case ast.Expr:
		return normExpr(loopHeaderInfo, e) // locals as `$k:T`: the header text is part of the key of an assumed loop
	}
	return ""
}

var loopHeaderInfo *types.Info

func (x *fnCtx) register(node ast.Stmt, kind, cond string, head *cmd) *loopRec {
	if x.quiet {
		return nil
	}
	r := &loopRec{Pos: pos(node.Pos()), Func: x.fn.name, Ord: x.ord, Kind: kind, Cond: cond, body: head, node: node, fn: x.fn, srcPos: node.Pos()}
	x.ord++
	r.name = fmt.Sprintf("L%d", len(loopDefs))
	loopDefs = append(loopDefs, r)
	x.fn.loops = append(x.fn.loops, r)
	allLoops = append(allLoops, r)
	return r
}

func (x *fnCtx) trFor(s *ast.ForStmt) *cmd {
	// reserve the ordinal in source order (outer before inner)
	myOrd := x.ord
	if !x.quiet {
		x.ord++
	}
	init := x.trStmt(s.Init)
	post := x.trStmt(s.Post)
	tg := &target{isLoop: true, brkLabel: x.newLabel(), contLabel: -1}
	if hasEffect(post) {
		tg.contLabel = x.newLabel()
	}
	x.targets = append(x.targets, tg)
	t, f := x.trCond(s.Cond)
	body := x.trBlock(s.Body)
	x.targets = x.targets[:len(x.targets)-1]
	if tg.contLabel >= 0 && tg.contUsed {
		body = cBlock(tg.contLabel, body)
	}
	head := cAlt(cSeq(t, body, post), cSeq(f, cJump(tg.brkLabel)))
	lp := &cmd{op: "loop", kids: []*cmd{head}}
	if !x.quiet {
		save := x.ord
		x.ord = myOrd
		kind := "token"
		if x.countedByKind(s) {
			kind = "counted"
		}
		r := x.register(s, kind, strings.TrimSpace("for "+forHeader(s)), head)
		x.ord = save
		lp.name = r.name
		r.condT = t
	}
	return cSeq(init, cBlock(tg.brkLabel, lp))
}

func forHeader(s *ast.ForStmt) string {
	c := srcOf(s.Cond)
	if s.Init == nil && s.Post == nil {
		return c
	}
	return stmtSrc(s.Init) + "; " + c + "; " + stmtSrc(s.Post)
}

func stmtSrc(s ast.Stmt) string {
	switch s := s.(type) {
	case *ast.AssignStmt:
		var l, r []string
		for _, e := range s.Lhs {
			l = append(l, srcOf(e))
		}
		for _, e := range s.Rhs {
			r = append(r, srcOf(e))
		}
		return strings.Join(l, ", ") + " " + s.Tok.String() + " " + strings.Join(r, ", ")
	case *ast.IncDecStmt:
		return srcOf(s.X) + s.Tok.String()
	case *ast.ExprStmt:
		return srcOf(s.X)
	}
	return ""
}

func (x *fnCtx) trRange(s *ast.RangeStmt) *cmd {
	myOrd := x.ord
	if !x.quiet {
		x.ord++
	}
	pre := x.effects(s.X)
	tg := &target{isLoop: true, brkLabel: x.newLabel(), contLabel: -1}
	x.targets = append(x.targets, tg)
	body := x.trBlock(s.Body)
	x.targets = x.targets[:len(x.targets)-1]
	if x.cv != nil && s.Tok == token.ASSIGN {
		for _, e := range []ast.Expr{s.Key, s.Value} {
			if id, ok := e.(*ast.Ident); ok && x.info.ObjectOf(id) == x.cv {
				x.setBad("counter assigned by range", s.Pos())
			}
		}
	}
	head := cAlt(body, cJump(tg.brkLabel))
	lp := &cmd{op: "loop", kids: []*cmd{head}}
	if !x.quiet {
		save := x.ord
		x.ord = myOrd
		kind := "untranslated"
		if t := x.info.TypeOf(s.X); t != nil {
			switch u := t.Underlying().(type) {
			case *types.Slice, *types.Array, *types.Map:
				kind = "range"
			case *types.Pointer:
				if _, ok := u.Elem().Underlying().(*types.Array); ok {
					kind = "range"
				}
			case *types.Basic:
				if u.Info()&(types.IsString|types.IsInteger) != 0 {
					kind = "range"
				}
			}
		}
		r := x.register(s, kind, "range "+srcOf(s.X), head)
		x.ord = save
		lp.name = r.name
		r.set = tsAll
	}
	return cSeq(pre, cBlock(tg.brkLabel, lp))
}

// path of an expression made of identifiers and field selections: ["create","TTL","Elements"].
func (x *fnCtx) pathOf(e ast.Expr) (types.Object, []string, bool) {
	var rev []string
	for {
		switch n := ast.Unparen(e).(type) {
		case *ast.Ident:
			obj := x.info.ObjectOf(n)
			p := make([]string, len(rev))
			for i := range rev {
				p[i] = rev[len(rev)-1-i]
			}
			return obj, p, obj != nil
		case *ast.SelectorExpr:
			rev = append(rev, n.Sel.Name)
			e = n.X
		case *ast.StarExpr:
			e = n.X
		default:
			return nil, nil, false
		}
	}
}

func prefixRelated(a, b []string) bool {
	n := len(a)
	if len(b) < n {
		n = len(b)
	}
	for i := 0; i < n; i++ {
		if a[i] != b[i] {
			return false
		}
	}
	return true
}

// boundStable: nothing in body can change the value of the bound expression (a constant, a path, or len(path)).
func (x *fnCtx) boundStable(body ast.Node, bound ast.Expr) bool {
	bound = ast.Unparen(bound)
	if tv, ok := x.info.Types[bound]; ok && tv.Value != nil {
		return true
	}
	// len(E) - k, len(E)
	if be, ok := bound.(*ast.BinaryExpr); ok && (be.Op == token.SUB || be.Op == token.ADD) {
		if tv, ok := x.info.Types[be.Y]; ok && tv.Value != nil {
			bound = ast.Unparen(be.X)
		}
	}
	if call, ok := bound.(*ast.CallExpr); ok {
		if id, ok := call.Fun.(*ast.Ident); ok && id.Name == "len" && len(call.Args) == 1 {
			if tv, ok := x.info.Types[call.Fun]; ok && tv.IsBuiltin() {
				bound = ast.Unparen(call.Args[0])
			}
		}
	}
	root, path, ok := x.pathOf(bound)
	if !ok {
		return false
	}
	if v, isVar := root.(*types.Var); !isVar || v.Parent() == parserPkg.Types.Scope() || v.IsField() {
		return false // package-level variable: any callee could change it
	}
	_, rootIsPtr := root.Type().Underlying().(*types.Pointer)
	stable := true
	ast.Inspect(body, func(n ast.Node) bool {
		check := func(l ast.Expr) {
			// strip index expressions: x.a[i] = … does not change len(x.a), but x.a = … does
			l = ast.Unparen(l)
			if _, isIdx := l.(*ast.IndexExpr); isIdx {
				return
			}
			r, p, ok := x.pathOf(l)
			if ok && r == root && prefixRelated(p, path) && len(p) <= len(path) {
				stable = false
			}
			if !ok {
				if id, _ := rootIdent(l); id != nil && x.info.ObjectOf(id) == root {
					stable = false
				}
			}
		}
		switch n := n.(type) {
		case *ast.AssignStmt:
			for _, l := range n.Lhs {
				check(l)
				// through an alias: any write to a field with the name of the bound's last field
				if se, ok := ast.Unparen(l).(*ast.SelectorExpr); ok && len(path) > 0 && se.Sel.Name == path[len(path)-1] {
					stable = false
				}
			}
		case *ast.IncDecStmt:
			check(n.X)
		case *ast.RangeStmt:
			if n.Tok == token.ASSIGN {
				if n.Key != nil {
					check(n.Key)
				}
				if n.Value != nil {
					check(n.Value)
				}
			}
		case *ast.UnaryExpr:
			if n.Op == token.AND {
				if id, _ := rootIdent(n.X); id != nil && x.info.ObjectOf(id) == root {
					stable = false
				}
			}
		case *ast.FuncLit:
			stable = false
		case *ast.CallExpr:
			if tv, ok := x.info.Types[n.Fun]; ok && (tv.IsBuiltin() || tv.IsType()) {
				return true
			}
			if !rootIsPtr && len(path) == 0 {
				return true // a local value (slice header, int) cannot be changed by a callee
			}
			// the bound lives behind a pointer (or in a struct that may contain pointers): an alias could reach it
			// from any callee, so no call at all is allowed
			stable = false
			return false
		}
		return stable
	})
	return stable
}

// counterUntouched: the body never assigns the counter nor takes its address.
func (x *fnCtx) counterUntouched(body ast.Node, v types.Object) bool {
	okk := true
	ast.Inspect(body, func(n ast.Node) bool {
		isV := func(e ast.Expr) bool {
			id, ok := ast.Unparen(e).(*ast.Ident)
			return ok && x.info.ObjectOf(id) == v
		}
		switch n := n.(type) {
		case *ast.AssignStmt:
			for _, l := range n.Lhs {
				if isV(l) {
					okk = false
				}
			}
		case *ast.IncDecStmt:
			if isV(n.X) {
				okk = false
			}
		case *ast.RangeStmt:
			if n.Key != nil && isV(n.Key) || n.Value != nil && isV(n.Value) {
				okk = false
			}
		case *ast.UnaryExpr:
			if n.Op == token.AND && isV(n.X) {
				okk = false
			}
		case *ast.FuncLit:
			okk = false
		}
		return okk
	})
	return okk
}

// countedByKind: `for i := a; i < b; i++ { body }`, body leaves i and b alone.
func (x *fnCtx) countedByKind(s *ast.ForStmt) bool {
	as, ok := s.Init.(*ast.AssignStmt)
	if !ok || as.Tok != token.DEFINE || len(as.Lhs) != 1 {
		return false
	}
	id, ok := as.Lhs[0].(*ast.Ident)
	if !ok {
		return false
	}
	v := x.info.ObjectOf(id)
	be, ok := ast.Unparen(s.Cond).(*ast.BinaryExpr)
	if !ok || (be.Op != token.LSS && be.Op != token.LEQ) {
		return false
	}
	ci, ok := ast.Unparen(be.X).(*ast.Ident)
	if !ok || x.info.ObjectOf(ci) != v {
		return false
	}
	switch p := s.Post.(type) {
	case *ast.IncDecStmt:
		pi, ok := ast.Unparen(p.X).(*ast.Ident)
		if !ok || x.info.ObjectOf(pi) != v || p.Tok != token.INC {
			return false
		}
	case *ast.AssignStmt:
		if p.Tok != token.ADD_ASSIGN || len(p.Lhs) != 1 || len(p.Rhs) != 1 {
			return false
		}
		pi, ok := ast.Unparen(p.Lhs[0]).(*ast.Ident)
		if !ok || x.info.ObjectOf(pi) != v {
			return false
		}
		if c, ok := constInt(x.info, p.Rhs[0]); !ok || c <= 0 {
			return false
		}
	default:
		return false
	}
	return x.counterUntouched(s.Body, v) && x.boundStable(s.Body, be.Y)
}

// counterCandidate: the condition of a while-style loop has a top-level conjunct `v < B`, v a local integer.
func (x *fnCtx) counterCandidate(s *ast.ForStmt) (types.Object, ast.Expr) {
	if s.Init != nil || s.Post != nil || s.Cond == nil {
		return nil, nil
	}
	var conj []ast.Expr
	var split func(e ast.Expr)
	split = func(e ast.Expr) {
		e = ast.Unparen(e)
		if be, ok := e.(*ast.BinaryExpr); ok && be.Op == token.LAND {
			split(be.X)
			split(be.Y)
			return
		}
		conj = append(conj, e)
	}
	split(s.Cond)
	for _, c := range conj {
		be, ok := c.(*ast.BinaryExpr)
		if !ok || be.Op != token.LSS {
			continue
		}
		id, ok := ast.Unparen(be.X).(*ast.Ident)
		if !ok {
			continue
		}
		v, ok := x.info.ObjectOf(id).(*types.Var)
		if !ok || v.IsField() || v.Parent() == parserPkg.Types.Scope() {
			continue
		}
		if b, ok := v.Type().Underlying().(*types.Basic); !ok || b.Info()&types.IsInteger == 0 {
			continue
		}
		return v, be.Y
	}
	return nil, nil
}

func condSet(t *cmd) TS {
	r := goAna(t, st{n: tsAll})
	return r.norm.n.or(r.norm.a)
}

// ---------- driver ----------

func extractLoops(pkgs []*packages.Package, facts *Facts, leanDir string) {
	parserPkg = findPkg(pkgs, "parser")
	tokPkg := findPkg(pkgs, "token")
	if parserPkg == nil || tokPkg == nil {
		fmt.Fprintln(os.Stderr, "extract: loops: parser/token package not loaded")
		os.Exit(2)
	}
	// token numbering from the constants of type token.Token
	maxv := -1
	names := map[int]string{}
	var kwBeg, kwEnd int64 = -1, -1
	sc := tokPkg.Types.Scope()
	for _, n := range sc.Names() {
		c, ok := sc.Lookup(n).(*types.Const)
		if !ok || !isTokenType(c.Type()) {
			continue
		}
		v, _ := constant.Int64Val(constant.ToInt(c.Val()))
		if n == "keyword_beg" {
			kwBeg = v
		}
		if n == "keyword_end" {
			kwEnd = v
		}
		if int(v) > maxv {
			maxv = int(v)
		}
		if _, dup := names[int(v)]; !dup || (n != "keyword_beg" && n != "keyword_end") {
			names[int(v)] = n
		}
		if n == "EOF" {
			tokEOF = int(v)
		}
	}
	tokK = maxv + 1
	if tokK > 256 {
		fmt.Fprintln(os.Stderr, "extract: loops: more than 256 token kinds")
		os.Exit(2)
	}
	tokName = make([]string, tokK)
	for i := range tokName {
		tokName[i] = names[i]
	}
	tsAll = TS{}
	for i := 0; i < tokK; i++ {
		tsAll = tsAll.or(tsOf(i))
	}
	kwSet = TS{}
	for i := int(kwBeg) + 1; i < int(kwEnd); i++ {
		kwSet = kwSet.or(tsOf(i))
	}
	kwOK := kwBeg >= 0 && kwEnd >= 0 && isKeywordShape(tokPkg)

	// functions of package parser with bodies, in source order
	fnIndex = map[*types.Func]*fnRec{}
	fnList, allLoops, loopDefs, cursorSites = nil, nil, nil, nil
	type fdecl struct {
		fd   *ast.FuncDecl
		file string
	}
	var decls []fdecl
	for _, file := range parserPkg.Syntax {
		fname := fset.Position(file.Pos()).Filename
		if isVerifFile(fname) {
			continue
		}
		for _, d := range file.Decls {
			if fd, ok := d.(*ast.FuncDecl); ok && fd.Body != nil {
				decls = append(decls, fdecl{fd, fname})
			}
		}
	}
	sort.SliceStable(decls, func(i, j int) bool {
		a, b := fset.Position(decls[i].fd.Pos()), fset.Position(decls[j].fd.Pos())
		if a.Filename != b.Filename {
			return a.Filename < b.Filename
		}
		return a.Line < b.Line
	})
	info := parserPkg.TypesInfo
	loopHeaderInfo = info
	for i, d := range decls {
		obj, _ := info.Defs[d.fd.Name].(*types.Func)
		r := &fnRec{idx: i, name: d.fd.Name.Name, pos: pos(d.fd.Pos()), obj: obj, decl: d.fd}
		if obj != nil {
			sig := obj.Type().(*types.Signature)
			if sig.Results().Len() == 1 {
				if b, ok := sig.Results().At(0).Type().Underlying().(*types.Basic); ok && b.Kind() == types.Bool {
					r.boolRet = true
				}
			}
			fnIndex[obj] = r
		}
		fnList = append(fnList, r)
	}
	if !kwOK {
		kwSet = tsAll // IsKeyword not of the expected shape: no information
	}
	// cursor sites: every assignment to Parser.current/peek/peekPeek and every use of Parser.lexer
	for _, r := range fnList {
		ast.Inspect(r.decl.Body, func(n ast.Node) bool {
			switch n := n.(type) {
			case *ast.AssignStmt:
				for _, l := range n.Lhs {
					if f := parserField(info, l); f == "current" || f == "peek" || f == "peekPeek" || f == "lexer" {
						cursorSites = append(cursorSites, Site{Pos: pos(n.Pos()), Func: r.name, What: "write " + f})
					} else if se, ok := ast.Unparen(l).(*ast.SelectorExpr); ok {
						// writes into the items: p.current.Token = …
						if f := parserField(info, se.X); f == "current" || f == "peek" || f == "peekPeek" {
							cursorSites = append(cursorSites, Site{Pos: pos(n.Pos()), Func: r.name, What: "write " + f + "." + se.Sel.Name})
						}
					}
				}
			case *ast.UnaryExpr:
				if n.Op == token.AND {
					e := ast.Unparen(n.X)
					if se, ok := e.(*ast.SelectorExpr); ok {
						if f := parserField(info, se); f == "current" || f == "peek" || f == "peekPeek" || f == "lexer" {
							cursorSites = append(cursorSites, Site{Pos: pos(n.Pos()), Func: r.name, What: "address of " + f})
						}
					}
				}
			case *ast.SelectorExpr:
				if f := parserField(info, n); f == "lexer" {
					cursorSites = append(cursorSites, Site{Pos: pos(n.Pos()), Func: r.name, What: "use lexer"})
				}
			case *ast.CompositeLit:
				if isParserPtr(info.TypeOf(n)) {
					cursorSites = append(cursorSites, Site{Pos: pos(n.Pos()), Func: r.name, What: "Parser literal"})
				}
			}
			return true
		})
	}
	// translate
	for _, r := range fnList {
		x := &fnCtx{info: info, fn: r}
		if r.decl.Recv != nil && len(r.decl.Recv.List) == 1 && len(r.decl.Recv.List[0].Names) == 1 && isParserPtr(info.TypeOf(r.decl.Recv.List[0].Type)) {
			x.self = info.ObjectOf(r.decl.Recv.List[0].Names[0])
		} else if r.decl.Type.Params != nil {
			for _, f := range r.decl.Type.Params.List {
				if isParserPtr(info.TypeOf(f.Type)) && len(f.Names) > 0 && x.self == nil {
					x.self = info.ObjectOf(f.Names[0])
				}
			}
		}
		body := x.trBlock(r.decl.Body)
		if x.bad != "" {
			r.bad = x.bad
			r.body = cCall(TS{})
			for _, l := range r.loops {
				l.Kind = "untranslated"
				l.Reason = "function not translatable: " + x.bad
			}
		} else {
			r.body = body
		}
	}
	// contracts: Kleene iteration from "no behaviour" (adv = ALL, tset = fset = ∅)
	proposeContracts()
	// predict certification, try the counter skeleton for data loops
	for _, l := range allLoops {
		if l.condT != nil {
			l.set = condSet(l.condT)
		}
		switch l.Kind {
		case "range", "counted":
			l.OK, l.How = true, "kind"
			continue
		case "untranslated":
			continue
		}
		if goLoopOK(l.body) {
			l.OK = true
			continue
		}
		if fs, ok := l.node.(*ast.ForStmt); ok {
			x := &fnCtx{info: info, fn: l.fn, quiet: true}
			if v, bound := x.counterCandidate(fs); v != nil && x.counterUntouchedExceptInc(fs.Body, v) && x.boundStable(fs.Body, bound) {
				x.cv, x.cbound = v, types.ExprString(bound)
				tg := &target{isLoop: true, brkLabel: x.newLabel(), contLabel: -1}
				x.targets = append(x.targets, tg)
				t, f := x.trCond(fs.Cond)
				body := x.trBlock(fs.Body)
				head := cAlt(cSeq(t, body), cSeq(f, cJump(tg.brkLabel)))
				if x.bad == "" && goLoopOK(head) {
					l.Kind, l.cbody, l.OK, l.usesCtr = "counter", head, true, true
					l.set = condSet(t)
				}
			}
		}
	}
	classifyHow()
	checkAssumed(facts)
	nonAdvancingCallGraph(facts)
	writeLoopsLean(leanDir)
	// facts
	var recs []*loopRec
	recs = append(recs, allLoops...)
	sort.SliceStable(recs, func(i, j int) bool { return lessPos(recs[i].srcPos, recs[j].srcPos) })
	for _, l := range recs {
		l.S = tsNames(l.set)
	}
	facts.Tables["loops"] = recs
	facts.Tables["cursor_sites"] = cursorSites
	var bad []Site
	for _, r := range fnList {
		if r.bad != "" {
			bad = append(bad, Site{Pos: r.pos, Func: r.name, What: r.bad})
		}
	}
	facts.Tables["untranslatable_funcs"] = bad
	type contract struct {
		Idx  int    `json:"idx"`
		Name string `json:"name"`
		Pos  string `json:"pos"`
		Bool bool   `json:"bool"`
		Adv  string `json:"adv"` // sets as 256-bit hex masks, kind k = bit k
		Tset string `json:"tset"`
		Fset string `json:"fset"`
	}
	hx := func(s TS) string { return fmt.Sprintf("%016x%016x%016x%016x", s[3], s[2], s[1], s[0]) }
	var cs []contract
	for _, r := range fnList {
		cs = append(cs, contract{r.idx, r.name, r.pos, r.boolRet, hx(r.adv), hx(r.tset), hx(r.fset)})
	}
	facts.Tables["contracts"] = cs
	cnt := map[string]int{}
	for _, l := range allLoops {
		cnt["loops_total"]++
		cnt["loops_kind_"+l.Kind]++
		if l.OK {
			cnt["loops_certified_by_"+l.How]++
		} else {
			cnt["loops_uncertified"]++
		}
	}
	for k, v := range cnt {
		facts.Counts[k] = v
	}
	facts.Counts["parser_funcs"] = len(fnList)
}

// checkAssumed compares the uncertified loops with the reviewed list /verif/assumed_loops.json (or $VERIF_ASSUMED_LOOPS).
// The binding check is the Lean theorem `uncertified_are_assumed`; this one only makes a mismatch visible early.
func checkAssumed(facts *Facts) {
	path := os.Getenv("VERIF_ASSUMED_LOOPS")
	if path == "" {
		path = "/verif/assumed_loops.json"
	}
	b, err := os.ReadFile(path)
	if err != nil {
		return
	}
	var doc struct {
		Assumed []struct {
			Func   string `json:"func"`
			Ord    int    `json:"ord"`
			Cond   string `json:"cond"`
			Reason string `json:"reason"`
		} `json:"assumed"`
	}
	if err := json.Unmarshal(b, &doc); err != nil {
		fmt.Fprintln(os.Stderr, "extract: loops:", path, err)
		facts.Counts["loops_assumed_mismatch"] = 1
		return
	}
	want := map[string]string{}
	for _, a := range doc.Assumed {
		want[fmt.Sprintf("%s#%d %s", a.Func, a.Ord, a.Cond)] = a.Reason
	}
	mism := 0
	for _, l := range allLoops {
		if l.OK {
			continue
		}
		k := fmt.Sprintf("%s#%d %s", l.Func, l.Ord, l.Cond)
		if r, ok := want[k]; ok {
			l.How, l.Reason = "assumed", r
			delete(want, k)
		} else {
			mism++
			fmt.Fprintf(os.Stderr, "extract: loops: UNCERTIFIED loop not in %s: %s %s\n", path, l.Pos, k)
		}
	}
	for k := range want {
		mism++
		fmt.Fprintf(os.Stderr, "extract: loops: stale entry in %s (the loop certifies or no longer exists): %s\n", path, k)
	}
	facts.Counts["loops_assumed_mismatch"] = mism
}

// nonAdvancingCallGraph: edge (f,k) -> (g,k) when f, entered on a token of kind k, can call g with the cursor still on
// that token.  A cycle is a recursion that need not consume anything.  (Diagnostic for the missing global argument.)
func nonAdvancingCallGraph(facts *Facts) {
	type node struct{ f, k int }
	edges := map[int]map[int]TS{} // f -> g -> kinds
	for _, f := range fnList {
		m := map[int]TS{}
		callSiteHook = func(g int, n TS) { m[g] = m[g].or(n) }
		goAna(f.body, st{n: tsAll})
		callSiteHook = nil
		edges[f.idx] = m
	}
	// per kind: DFS for cycles
	var cyc []string
	nEdges := 0
	for _, m := range edges {
		nEdges += len(m)
	}
	for k := 0; k < tokK; k++ {
		color := make([]int, len(fnList))
		var stack []int
		var dfs func(f int) bool
		dfs = func(f int) bool {
			color[f] = 1
			stack = append(stack, f)
			var gs []int
			for g, ks := range edges[f] {
				if ks.has(k) {
					gs = append(gs, g)
				}
			}
			sort.Ints(gs)
			for _, g := range gs {
				if color[g] == 1 {
					var names []string
					on := false
					for _, s := range stack {
						if s == g {
							on = true
						}
						if on {
							names = append(names, fnList[s].name)
						}
					}
					cyc = append(cyc, fmt.Sprintf("kind %s: %s -> %s", tokName[k], strings.Join(names, " -> "), fnList[g].name))
					return true
				}
				if color[g] == 0 && dfs(g) {
					return true
				}
			}
			stack = stack[:len(stack)-1]
			color[f] = 2
			return false
		}
		for f := range fnList {
			if color[f] == 0 {
				stack = stack[:0]
				if dfs(f) {
					break
				}
			}
		}
	}
	// per-kind ranks: rank_k(f) = length of the longest chain of non-advancing calls from f on a token of kind k
	fnRank = nil
	if len(cyc) == 0 {
		fnRank = make([][]int, len(fnList))
		for f := range fnRank {
			fnRank[f] = make([]int, tokK)
		}
		maxRank := 0
		for k := 0; k < tokK; k++ {
			done := make([]bool, len(fnList))
			var rk func(f int) int
			rk = func(f int) int {
				if done[f] {
					return fnRank[f][k]
				}
				r := 0
				for g, ks := range edges[f] {
					if ks.has(k) {
						if v := rk(g) + 1; v > r {
							r = v
						}
					}
				}
				fnRank[f][k] = r
				done[f] = true
				return r
			}
			for f := range fnList {
				if r := rk(f); r > maxRank {
					maxRank = r
				}
			}
		}
		facts.Counts["nonadvancing_call_rank_max"] = maxRank
	} else {
		facts.Counts["nonadvancing_call_rank_max"] = -1
	}
	facts.Counts["nonadvancing_call_edges"] = nEdges
	facts.Counts["nonadvancing_call_cycles_kinds"] = len(cyc)
	facts.Tables["nonadvancing_call_cycles"] = cyc
}

func lessPos(a, b token.Pos) bool {
	pa, pb := fset.Position(a), fset.Position(b)
	if pa.Filename != pb.Filename {
		return pa.Filename < pb.Filename
	}
	if pa.Line != pb.Line {
		return pa.Line < pb.Line
	}
	return pa.Column < pb.Column
}

// counterUntouchedExceptInc: the address of v is never taken and there is no closure (assignments are judged by the translation).
func (x *fnCtx) counterUntouchedExceptInc(body ast.Node, v types.Object) bool {
	okk := true
	ast.Inspect(body, func(n ast.Node) bool {
		switch n := n.(type) {
		case *ast.UnaryExpr:
			if id, ok := ast.Unparen(n.X).(*ast.Ident); ok && n.Op == token.AND && x.info.ObjectOf(id) == v {
				okk = false
			}
		case *ast.FuncLit:
			okk = false
		}
		return okk
	})
	return okk
}

// isKeywordShape: token.Token.IsKeyword is `return tok > keyword_beg && tok < keyword_end`.
func isKeywordShape(tokPkg *packages.Package) bool {
	for _, f := range tokPkg.Syntax {
		for _, d := range f.Decls {
			fd, ok := d.(*ast.FuncDecl)
			if !ok || fd.Name.Name != "IsKeyword" || fd.Recv == nil || fd.Body == nil || len(fd.Body.List) != 1 {
				continue
			}
			rs, ok := fd.Body.List[0].(*ast.ReturnStmt)
			if !ok || len(rs.Results) != 1 {
				return false
			}
			recv := ""
			if len(fd.Recv.List[0].Names) == 1 {
				recv = fd.Recv.List[0].Names[0].Name
			}
			return types.ExprString(rs.Results[0]) == recv+" > keyword_beg && "+recv+" < keyword_end"
		}
	}
	return false
}

// parserField: e is `<expr of type *Parser>.<field>`; returns the field name.
func parserField(info *types.Info, e ast.Expr) string {
	se, ok := ast.Unparen(e).(*ast.SelectorExpr)
	if !ok {
		return ""
	}
	sel := info.Selections[se]
	if sel == nil || sel.Kind() != types.FieldVal || !isParserPtr(sel.Recv()) {
		return ""
	}
	return se.Sel.Name
}

// classifyHow: a certified skeleton loop counts as "contracts" if it no longer certifies when every callee
// contract is forgotten (adv = ∅, no answer sets), else "skeleton".
func classifyHow() {
	for _, l := range allLoops {
		if !l.OK || l.How == "kind" {
			continue
		}
		b := l.body
		if l.cbody != nil {
			b = l.cbody
		}
		noContracts = true
		ok := goLoopOK(b)
		noContracts = false
		if ok {
			l.How = "skeleton"
		} else {
			l.How = "contracts"
		}
	}
}

// ---------- Lean output ----------

func writeLoopsLean(dir string) {
	if dir == "" {
		return
	}
	_ = os.MkdirAll(dir, 0o755)
	var sb strings.Builder
	sb.WriteString("-- GENERATED by /verif/extract (loops.go) from the Go source of package parser. Do not edit.\n")
	sb.WriteString("-- Progress skeletons of every function and every `for` statement; see the header of /verif/extract/loops.go\n")
	sb.WriteString("-- for the translation rules and their soundness argument.  Data only; the obligations are in DC/Props/C02.lean.\n")
	sb.WriteString("import DC.Model.Skel\nset_option maxRecDepth 100000\nnamespace DC.Gen.Loops\nopen DC.Model.Skel\n\n")
	fmt.Fprintf(&sb, "/-- number of constants of type token.Token (the largest value + 1) -/\ndef tokCount : Nat := %d\n", tokK)
	fmt.Fprintf(&sb, "/-- value of token.EOF -/\ndef eofTok : Nat := %d\n", tokEOF)
	fmt.Fprintf(&sb, "/-- kinds k with token.Token(k).IsKeyword(): keyword_beg < k < keyword_end -/\ndef kwSet : TokSet := %s\n\n", tsLean(kwSet))
	sort.SliceStable(cursorSites, func(i, j int) bool {
		if cursorSites[i].Func != cursorSites[j].Func {
			return cursorSites[i].Func < cursorSites[j].Func
		}
		return cursorSites[i].What < cursorSites[j].What
	})
	sb.WriteString("/-- every assignment to (or address of) Parser.current/peek/peekPeek/lexer, every use of Parser.lexer and every\n    Parser literal in package parser: (function, what) -/\ndef cursorSites : List (String × String) := [")
	seen := map[string]bool{}
	first := true
	for _, s := range cursorSites {
		k := s.Func + "|" + s.What
		if seen[k] {
			continue
		}
		seen[k] = true
		if !first {
			sb.WriteString(",")
		}
		first = false
		fmt.Fprintf(&sb, "\n  (%s, %s)", lstr(s.Func), lstr(s.What))
	}
	sb.WriteString("]\n\n")
	// loop bodies, inner before outer
	for _, l := range loopDefs {
		fmt.Fprintf(&sb, "/-- %s %s #%d: `%s` -/\ndef %s : Cmd :=\n  ", l.Pos, l.Func, l.Ord, strings.ReplaceAll(l.Cond, "-/", "- /"), l.name)
		l.body.lean(&sb, 2)
		sb.WriteString("\n\n")
		if l.cbody != nil {
			fmt.Fprintf(&sb, "/-- %s %s #%d: counter skeleton (virtual stream indexed by the loop counter) -/\ndef %sc : Cmd :=\n  ", l.Pos, l.Func, l.Ord, l.name)
			l.cbody.lean(&sb, 2)
			sb.WriteString("\n\n")
		}
	}
	// function bodies
	for _, r := range fnList {
		note := ""
		if r.bad != "" {
			note = " — NOT TRANSLATED: " + r.bad
		}
		fmt.Fprintf(&sb, "/-- %s %s%s -/\ndef F%d : Cmd :=\n  ", r.pos, r.name, note, r.idx)
		r.body.lean(&sb, 2)
		sb.WriteString("\n\n")
	}
	sb.WriteString("def funNames : Array String := #[")
	for i, r := range fnList {
		if i > 0 {
			sb.WriteString(", ")
		}
		sb.WriteString(lstr(r.name))
	}
	sb.WriteString("]\n\n/-- functions emitted as `call 0` because they use a construct the translator does not handle: (function, reason) -/\ndef untranslatable : List (String × String) := [")
	first = true
	for _, r := range fnList {
		if r.bad != "" {
			if !first {
				sb.WriteString(", ")
			}
			first = false
			fmt.Fprintf(&sb, "(%s, %s)", lstr(r.name), lstr(r.bad))
		}
	}
	sb.WriteString("]\n\n")
	sb.WriteString("/-- skeletons and PROPOSED contracts (least fixed point computed by the translator; checked by `progOK`) -/\ndef prog : Prog where\n  funs := #[")
	for i := range fnList {
		if i > 0 {
			sb.WriteString(", ")
		}
		fmt.Fprintf(&sb, "F%d", i)
	}
	sb.WriteString("]\n  adv := #[")
	for i, r := range fnList {
		if i > 0 {
			sb.WriteString(",")
		}
		fmt.Fprintf(&sb, "\n    /- %d %s -/ %s", i, r.name, tsLean(r.adv))
	}
	sb.WriteString("]\n  tset := #[")
	for i, r := range fnList {
		if i > 0 {
			sb.WriteString(",")
		}
		fmt.Fprintf(&sb, "\n    /- %d %s -/ %s", i, r.name, tsLean(r.tset))
	}
	sb.WriteString("]\n  fset := #[")
	for i, r := range fnList {
		if i > 0 {
			sb.WriteString(",")
		}
		fmt.Fprintf(&sb, "\n    /- %d %s -/ %s", i, r.name, tsLean(r.fset))
	}
	sb.WriteString("]\n\n")
	// ranks
	sb.WriteString("/-- PROPOSED ranks for the non-advancing call graph (checked by `rankOK`): per function, groups of kinds with the\n    length of the longest chain of calls that can be entered from it without consuming a token of that kind.\n    Empty if the translator found a cycle (then `rankOK` fails). -/\ndef ranks : Array RankTbl := #[")
	for i, r := range fnList {
		if i > 0 {
			sb.WriteString(",")
		}
		fmt.Fprintf(&sb, "\n  /- %d %s -/ [", i, r.name)
		if fnRank != nil {
			groups := map[int]TS{}
			var vals []int
			for k := 0; k < tokK; k++ {
				v := fnRank[i][k]
				if _, ok := groups[v]; !ok {
					vals = append(vals, v)
				}
				groups[v] = groups[v].or(tsOf(k))
			}
			sort.Ints(vals)
			for j, v := range vals {
				if j > 0 {
					sb.WriteString(", ")
				}
				fmt.Fprintf(&sb, "(%s, %d)", tsLean(groups[v]), v)
			}
		}
		sb.WriteString("]")
	}
	sb.WriteString("]\n\n")
	// inventory
	var recs []*loopRec
	recs = append(recs, allLoops...)
	sort.SliceStable(recs, func(i, j int) bool { return lessPos(recs[i].srcPos, recs[j].srcPos) })
	emit := func(l *loopRec) string {
		body := l.name
		if l.cbody != nil {
			body = l.name + "c"
		}
		return fmt.Sprintf("{ pos := %s, func := %s, ord := %d, kind := .%s, cond := %s, S := %s, body := %s, fbody := %s }",
			lstr(l.Pos), lstr(l.Func), l.Ord, l.Kind, lstr(l.Cond), tsLean(l.set), body, l.name)
	}
	var good, badl []*loopRec
	for _, l := range recs {
		if l.OK {
			good = append(good, l)
		} else {
			badl = append(badl, l)
		}
	}
	sb.WriteString("/-- the loops the translator expects to certify (by kind, or by `loopOK prog`) -/\ndef loops : List Loop := [")
	for i, l := range good {
		if i > 0 {
			sb.WriteString(",")
		}
		sb.WriteString("\n  " + emit(l))
	}
	sb.WriteString("]")
	sb.WriteString("\n\n/-- the loops it does not: they must be exactly the reviewed list DC.Spec.AssumedLoops.assumed -/\ndef uncertified : List Loop := [")
	for i, l := range badl {
		if i > 0 {
			sb.WriteString(",")
		}
		sb.WriteString("\n  " + emit(l))
	}
	sb.WriteString("]\n\n")
	fmt.Fprintf(&sb, "def nLoops : Nat := %d\n\nend DC.Gen.Loops\n", len(recs))
	_ = os.WriteFile(filepath.Join(dir, "Loops.lean"), []byte(sb.String()), 0o644)

	_ = os.Remove(filepath.Join(dir, "LoopsCert.lean")) // obsolete: the obligations are stated in DC/Props/C02.lean
}
