package main

import (
	"go/ast"
	"go/token"
	"go/types"

	"golang.org/x/tools/go/packages"
)

// extractAliasAppends lists, for internal/explain and ast, every `append(base, …)` whose base may share its
// backing array with a slice stored in the caller's AST: the append can then write into that array (a write
// through the AST that no assignment statement shows). base is FRESH when it is nil, a make(), a composite
// literal, a conversion of nil (`[]T(nil)`), another append whose own base is fresh, or a local variable all of
// whose assignments are fresh expressions or appends onto itself. Everything else — a field of an ast struct,
// a reslice `x[:k]`, a parameter, a local initialised from any of those — is reported.
func extractAliasAppends(pkgs []*packages.Package, facts *Facts) {
	for _, p := range pkgs {
		short := shortName(p.PkgPath)
		if short != "internal/explain" && short != "ast" {
			continue
		}
		fset = p.Fset
		info := p.TypesInfo
		for _, file := range p.Syntax {
			if isVerifFile(fset.Position(file.Pos()).Filename) {
				continue
			}
			for _, d := range file.Decls {
				fd, ok := d.(*ast.FuncDecl)
				if !ok || fd.Body == nil {
					continue
				}
				fn := short + "." + fd.Name.Name
				freshVars := freshSlices(fd, info)
				ast.Inspect(fd.Body, func(n ast.Node) bool {
					call, ok := n.(*ast.CallExpr)
					if !ok || !isBuiltinAppend(call, info) || len(call.Args) == 0 {
						return true
					}
					if !freshExpr(call.Args[0], info, freshVars, fd) {
						// only slices of AST element types matter: []ast.Expression, []*ast.X, []ast.Statement …
						if t := info.TypeOf(call.Args[0]); t != nil && sliceOfAST(t) {
							facts.AliasAppends = append(facts.AliasAppends, Site{Pos: pos(call.Pos()), Func: fn, What: exprString(call.Args[0])})
						}
					}
					return true
				})
			}
		}
	}
}

func shortName(pkgPath string) string {
	if len(pkgPath) > len(modPath)+1 {
		return pkgPath[len(modPath)+1:]
	}
	return pkgPath
}

func isBuiltinAppend(call *ast.CallExpr, info *types.Info) bool {
	id, ok := call.Fun.(*ast.Ident)
	if !ok || id.Name != "append" {
		return false
	}
	_, isBuiltin := info.ObjectOf(id).(*types.Builtin)
	return isBuiltin
}

func sliceOfAST(t types.Type) bool {
	sl, ok := t.Underlying().(*types.Slice)
	if !ok {
		return false
	}
	e := sl.Elem()
	if p, ok := e.(*types.Pointer); ok {
		e = p.Elem()
	}
	if n, ok := e.(*types.Named); ok && n.Obj().Pkg() != nil && n.Obj().Pkg().Path() == modPath+"/ast" {
		return true
	}
	return false
}

func freshExpr(e ast.Expr, info *types.Info, freshVars map[*types.Var]bool, fd *ast.FuncDecl) bool {
	switch x := e.(type) {
	case *ast.Ident:
		if x.Name == "nil" {
			return true
		}
		if v, ok := info.ObjectOf(x).(*types.Var); ok {
			return freshVars[v]
		}
		return false
	case *ast.CompositeLit:
		return true
	case *ast.ParenExpr:
		return freshExpr(x.X, info, freshVars, fd)
	case *ast.CallExpr:
		if id, ok := x.Fun.(*ast.Ident); ok {
			if _, isBuiltin := info.ObjectOf(id).(*types.Builtin); isBuiltin {
				if id.Name == "make" {
					return true
				}
				if id.Name == "append" && len(x.Args) > 0 {
					return freshExpr(x.Args[0], info, freshVars, fd)
				}
			}
		}
		// conversion of nil: []T(nil)
		if len(x.Args) == 1 {
			if tv, ok := info.Types[x.Fun]; ok && tv.IsType() {
				if id, ok := x.Args[0].(*ast.Ident); ok && id.Name == "nil" {
					return true
				}
			}
		}
		return false
	}
	return false
}

// freshSlices: local slice variables all of whose assignments are fresh expressions or appends onto themselves.
func freshSlices(fd *ast.FuncDecl, info *types.Info) map[*types.Var]bool {
	state := map[*types.Var]int{} // 1 fresh so far, 2 tainted
	var assigns [][2]ast.Expr
	ast.Inspect(fd.Body, func(n ast.Node) bool {
		switch x := n.(type) {
		case *ast.AssignStmt:
			if len(x.Lhs) == len(x.Rhs) {
				for i := range x.Lhs {
					assigns = append(assigns, [2]ast.Expr{x.Lhs[i], x.Rhs[i]})
				}
			} else {
				for _, l := range x.Lhs {
					assigns = append(assigns, [2]ast.Expr{l, nil})
				}
			}
		case *ast.ValueSpec:
			for i, nm := range x.Names {
				if i < len(x.Values) {
					assigns = append(assigns, [2]ast.Expr{nm, x.Values[i]})
				} else if len(x.Values) == 0 {
					assigns = append(assigns, [2]ast.Expr{nm, &ast.Ident{Name: "nil"}})
				}
			}
		case *ast.RangeStmt:
			if x.Tok == token.ASSIGN || x.Tok == token.DEFINE {
				if x.Key != nil {
					assigns = append(assigns, [2]ast.Expr{x.Key, nil})
				}
				if x.Value != nil {
					assigns = append(assigns, [2]ast.Expr{x.Value, nil})
				}
			}
		}
		return true
	})
	// iterate to a fixed point: a variable is fresh if every assignment is fresh given the current fresh set
	vars := map[*types.Var]bool{}
	for _, a := range assigns {
		if id, ok := a[0].(*ast.Ident); ok {
			if v, ok := info.ObjectOf(id).(*types.Var); ok && !v.IsField() && !isParamOrRecv(fd, info, v) {
				if _, isSlice := v.Type().Underlying().(*types.Slice); isSlice {
					vars[v] = true
				}
			}
		}
	}
	_ = state
	for changed := true; changed; {
		changed = false
		for _, a := range assigns {
			id, ok := a[0].(*ast.Ident)
			if !ok {
				continue
			}
			v, ok := info.ObjectOf(id).(*types.Var)
			if !ok || !vars[v] {
				continue
			}
			if a[1] == nil || !freshExpr(a[1], info, vars, fd) {
				vars[v] = false
				changed = true
			}
		}
	}
	out := map[*types.Var]bool{}
	for v, ok := range vars {
		if ok {
			out[v] = true
		}
	}
	return out
}

// freshFieldAssign: one statement `root.f… = <fresh slice expression>` of a function, with the block it stands in.
type freshFieldAssign struct {
	root  types.Object
	path  string // source text of the assigned selector (root.f.g)
	pos   token.Pos
	block *ast.BlockStmt
}

// freshFieldAssigns lists the assignments of fresh slices (append([]T(nil), …), make, composite literal) to fields of
// local variables, each with its innermost enclosing block.
func freshFieldAssigns(fd *ast.FuncDecl, info *types.Info) []freshFieldAssign {
	var out []freshFieldAssign
	var stack []*ast.BlockStmt
	var walk func(n ast.Node)
	walk = func(n ast.Node) {
		ast.Inspect(n, func(m ast.Node) bool {
			switch x := m.(type) {
			case *ast.BlockStmt:
				if x == n {
					return true
				}
				stack = append(stack, x)
				for _, st := range x.List {
					walk(st)
				}
				stack = stack[:len(stack)-1]
				return false
			case *ast.AssignStmt:
				if len(x.Lhs) == len(x.Rhs) && len(stack) > 0 {
					for i, l := range x.Lhs {
						sel, ok := l.(*ast.SelectorExpr)
						if !ok || !freshExpr(x.Rhs[i], info, map[*types.Var]bool{}, fd) {
							continue
						}
						if id, _ := rootIdent(sel); id != nil {
							out = append(out, freshFieldAssign{root: info.ObjectOf(id), path: exprString(sel), pos: x.Pos(), block: stack[len(stack)-1]})
						}
					}
				}
			}
			return true
		})
	}
	stack = append(stack, fd.Body)
	for _, st := range fd.Body.List {
		walk(st)
	}
	return out
}

// dominatedByFreshAssign: some fresh assignment to exactly this selector precedes pos in a block that encloses pos
// (so it is executed on every path that reaches pos, loops and gotos aside).
func dominatedByFreshAssign(as []freshFieldAssign, root types.Object, path string, pos token.Pos) bool {
	for _, a := range as {
		if a.root == root && a.path == path && a.pos < pos && a.block.Pos() <= pos && pos < a.block.End() {
			return true
		}
	}
	return false
}
