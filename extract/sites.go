package main

import "golang.org/x/tools/go/packages"

// extractSites: panic-site inventory (C01) and nil-return inventory (C03).
func extractSites(pkgs []*packages.Package, facts *Facts, leanDir string) {
	extractPanicSites(pkgs, facts, leanDir)
	extractNilReturns(pkgs, facts, leanDir)
}
